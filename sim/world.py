"""E1 - world simulator.

Real: BertE, bert_e.workflow.*, bert_e.jobs.*, bert_e.lib.git/simplecmd,
bert_e.git_host.mock (the in-repo fake host), and the real `git` binary on a
bare remote under the run's scratch directory.
Simulated: users, reviewers, admins, CI, Jira, webhook delivery, third
parties pushing inside a job, crash/partition at operation boundaries, per-ref
push rejection, clock, uuid, temp names, HOME.

One World lives in one process; variants are explored by fork() (see
`fork_variant`).
"""
import json
import logging
import os
import re
import shutil
import subprocess
import sys
import uuid as _uuid
from datetime import datetime as _real_datetime, timedelta

from .core import REPO, HarnessError, digest

if REPO not in sys.path:
    sys.path.insert(0, REPO)

import requests  # noqa: E402

EPOCH = 1600000000
ROBOT = 'robot'
USERS = ['alice', 'bob', 'carol', 'dave', 'lead', 'root']
OWNER = 'simorg'
SLUG = 'simrepo'
DEST_PREFIXES = ('development/', 'stabilization/', 'hotfix/')


class SimHang(BaseException):
    """The job did not come back (wall-clock watchdog of the C13 tap)."""


class SimKill(BaseException):
    """The Bert-E process died (raised from a seam; nothing catches it)."""


class SimClock:
    def __init__(self):
        self.t = EPOCH
        self.sync()

    def advance(self, n):
        self.t += max(0, int(n))
        self.sync()

    def sync(self):
        stamp = '%d +0000' % self.t
        os.environ['GIT_AUTHOR_DATE'] = stamp
        os.environ['GIT_COMMITTER_DATE'] = stamp

    def now(self):
        return _real_datetime(2020, 9, 13, 12, 26, 40) + timedelta(
            seconds=self.t - EPOCH)


class _DateTimeShim:
    """Stands for the `datetime` class imported in bert_e modules."""

    def __init__(self, clock):
        self._clock = clock

    def now(self, tz=None):
        return self._clock.now()

    def __getattr__(self, name):
        return getattr(_real_datetime, name)


class _TimeShim:
    def __init__(self, clock):
        self._clock = clock

    def sleep(self, n):
        self._clock.advance(n)

    def time(self):
        return float(self._clock.t)

    def __getattr__(self, name):
        import time
        return getattr(time, name)


class ListHandler(logging.Handler):
    def __init__(self):
        super().__init__(level=logging.DEBUG)
        self.records = []

    def emit(self, record):
        try:
            msg = record.getMessage()
        except Exception as err:  # a broken log call is itself of interest
            msg = 'LOGGING-ERROR %r %r %r' % (record.msg, record.args, err)
        exc = ''
        if record.exc_info:
            import traceback
            exc = ''.join(traceback.format_exception(*record.exc_info))
        self.records.append((record.levelno, record.name, msg, exc))


class FakeJira:
    """In-process Jira service; the seam is bert_e.lib.jira.JiraIssue."""

    def __init__(self):
        self.issues = {}
        self.fail_next = None   # None | int status code
        self.fail_left = None   # how many calls fail (None: one)
        self.calls = 0
        self.failed = 0

    def make_class(jira):
        from jira.exceptions import JIRAError

        class _NS:
            pass

        class JiraIssue:
            def __init__(self, account_url, issue_id, email, token):
                jira.calls += 1
                if jira.fail_next is not None:
                    code = jira.fail_next
                    left = (jira.fail_left or 1) - 1
                    jira.fail_left = left if left > 0 else None
                    if left <= 0:
                        jira.fail_next = None
                    jira.failed += 1
                    raise JIRAError(status_code=code, text='simulated')
                data = jira.issues.get(issue_id)
                if data is None:
                    raise JIRAError(status_code=404, text='not found')
                self.key = issue_id
                self.fields = _NS()
                self.fields.issuetype = _NS()
                self.fields.issuetype.name = data['type']
                self.fields.fixVersions = []
                for v in data['fixVersions']:
                    o = _NS()
                    o.name = v
                    self.fields.fixVersions.append(o)
        return JiraIssue


def ver_key(v):
    """Sort key of a development version string 'x.y' or 'x'."""
    parts = v.split('.')
    major = int(parts[0])
    minor = int(parts[1]) if len(parts) > 1 else 10 ** 6
    return (major, minor)


class World:
    def __init__(self, scratch, config, log_level=logging.INFO):
        self.scratch = scratch
        self.cfg = config
        self.log_level = log_level
        self.clock = None
        self.events = []          # pending webhook events
        self.user_prs = []        # host ids of user-created PRs, in order
        self.jobs = []            # job records
        self.njob = 0
        self.ncommit = 0
        self.status_history = []  # (sha, key, state, t, by)
        self.status_descriptions = []
        self.robot_tips = []      # shas that were tips of robot refs
        self.dest_history = {}    # dest ref -> [shas it has pointed to]
        self.third_party_log = []
        self.stats = {'faults': {}, 'probes': {}, 'jobs': 0, 'ops': 0,
                      'gitcmds': 0, 'statuses': {}}
        self.abstract_states = set()
        self.abstract_transitions = set()
        self.trace = []           # per-step digests (determinism self-test)
        # per-job fault state
        self.in_job = False
        self.plan = None
        self.fired = False
        self.dead = False
        self.partitioned = False
        self.nmut = 0
        self.npush = 0
        self.ncmd = 0
        self.cur = None
        self.berte = None
        self.jira = FakeJira()
        self.robot_comment_events = bool(config.get('robot_comment_events',
                                                    True))
        self.on_before_push = None   # extra hook used by some properties
        self.on_job_done = None      # called with every job record
        self.host_answers = None     # recorded (call, args, answer) if list

    # ------------------------------------------------------------------
    # setup
    def setup(self):
        s = self.scratch
        if os.path.exists(s):
            shutil.rmtree(s)
        os.makedirs(os.path.join(s, 'home'))
        os.makedirs(os.path.join(s, 'tmp'))
        self.clock = SimClock()
        gitconfig = os.path.join(s, 'gitconfig')
        with open(gitconfig, 'w') as f:
            f.write('[init]\n\tdefaultBranch = master\n'
                    '[gc]\n\tauto = 0\n[maintenance]\n\tauto = false\n'
                    '[advice]\n\tdetachedHead = false\n'
                    '[protocol "file"]\n\tallow = always\n'
                    '[core]\n\tfsync = none\n'
                    '[receive]\n\tautogc = false\n'
                    '[fetch]\n\twriteCommitGraph = false\n')
            f.write(self.cfg.get('extra_gitconfig', ''))
        os.environ['HOME'] = os.path.join(s, 'home')
        os.environ['GIT_CONFIG_NOSYSTEM'] = '1'
        os.environ['GIT_CONFIG_GLOBAL'] = gitconfig
        os.environ['GIT_TERMINAL_PROMPT'] = '0'
        os.environ['LC_ALL'] = 'C'
        os.environ['TZ'] = 'UTC'
        for k in list(os.environ):
            if k.startswith('BERT_E_') or k in (
                    'GIT_AUTHOR_NAME', 'GIT_AUTHOR_EMAIL',
                    'GIT_COMMITTER_NAME', 'GIT_COMMITTER_EMAIL', 'GIT_DIR',
                    'GIT_WORK_TREE'):
                del os.environ[k]
        self._install_seams()
        self._make_host()
        self._make_remote_content()
        self._write_settings()
        self.make_berte()
        for name, sha in self.refs().items():
            if name.startswith(DEST_PREFIXES):
                self.dest_history.setdefault(name, []).append(sha)

    def _install_seams(self):
        import bert_e.lib.git as bgit
        import bert_e.lib.retry as bretry
        import bert_e.job as bjob
        import bert_e.bert_e as bmain
        import bert_e.git_host.mock as mock
        import bert_e.lib.jira as bjira
        import bert_e.lib.simplecmd as simplecmd
        self.mock = mock
        self._real_cmd = simplecmd.cmd
        bgit.cmd = self._cmd
        bgit.time = _TimeShim(self.clock)
        bretry.sleep = self.clock.advance
        shim = _DateTimeShim(self.clock)
        bjob.datetime = shim
        bmain.datetime = shim
        mock.datetime = shim
        counter = [0]

        def fake_uuid():
            counter[0] += 1
            return _uuid.UUID(int=(0x5e << 120) | counter[0])
        bjob.uuid = fake_uuid
        tmpn = [0]
        tmproot = os.path.join(self.scratch, 'tmp')

        def fake_mkdtemp(*a, **k):
            tmpn[0] += 1
            d = os.path.join(tmproot, 't%04d' % tmpn[0])
            os.makedirs(d)
            return d
        bgit.mkdtemp = fake_mkdtemp
        bjira.JiraIssue = self.jira.make_class()
        # reset process-global host stores
        mock.PullRequest.items = []
        mock.Comment.items = []
        mock.Repository.items = []
        mock.Repository.repos = {}
        mock.Repository.revisions = {}
        try:
            from bert_e.git_host.cache import BUILD_STATUS_CACHE
            BUILD_STATUS_CACHE.clear()
        except Exception:
            pass
        # process-global registries as they are right after import: a
        # restarted Bert-E is a new process and starts from these
        from copy import deepcopy
        from bert_e.reactor import Reactor
        import bert_e.workflow.gitwaterflow  # noqa: F401 (registers options)
        if not hasattr(World, '_pristine_reactor'):
            World._pristine_reactor = [deepcopy(dict(m))
                                       for m in Reactor.__callbacks__.maps]
        # host call interception
        world = self

        def wrap(cls, name, kind):
            orig = cls.__dict__[name]

            def wrapper(obj, *a, **k):
                return world._host_call(kind, cls.__name__ + '.' + name,
                                        obj, orig, a, k)
            wrapper.__name__ = name
            setattr(cls, name, wrapper)
        R, P = mock.Repository, mock.PullRequestController
        for name in ('get_pull_requests', 'get_pull_request',
                     'get_build_status', 'get_build_url'):
            wrap(R, name, 'read')
        for name in ('create_pull_request', 'set_build_status'):
            wrap(R, name, 'write')
        for name in ('get_comments', 'get_approvals', 'get_participants',
                     'get_change_requests'):
            wrap(P, name, 'read')
        for name in ('add_comment', 'decline', 'set_bot_status'):
            wrap(P, name, 'write')
        wrap(mock.CommentController, 'delete', 'write')
        # logging
        self.loghandler = ListHandler()
        root = logging.getLogger()
        for h in list(root.handlers):
            root.removeHandler(h)
        root.addHandler(self.loghandler)
        root.setLevel(self.log_level)

    def _make_host(self):
        mock = self.mock
        self.clients = {u: mock.Client(u, 'pw-' + u, u + '@sim')
                        for u in USERS + [ROBOT, 'ci']}
        admin_repo = self.clients['root'].create_repository(SLUG, owner=OWNER)
        self.remote = admin_repo.gitrepo.tmp_directory
        self.repos = {u: c.get_repository(SLUG, owner=OWNER)
                      for u, c in self.clients.items()}
        if self.cfg.get('cred_url'):
            world = self
            mock.Repository.git_url = property(
                lambda repo: (repo.get_git_url() and False) or
                world.cfg['cred_url'])
            with open(os.environ['GIT_CONFIG_GLOBAL'], 'a') as f:
                f.write('[url "%s"]\n\tinsteadOf = %s\n' % (
                    self.remote, self.cfg['cred_url']))
        for r in self.repos.values():
            r.get_git_url()
        hook = os.path.join(self.remote, 'hooks', 'update')
        with open(hook, 'w') as f:
            f.write('#!/bin/sh\n'
                    'if [ -f "$GIT_DIR/reject" ]; then\n'
                    '  while IFS= read -r pat; do\n'
                    '    case "$1" in $pat)\n'
                    '      echo "sim: update of $1 refused" >&2; exit 1;;\n'
                    '    esac\n'
                    '  done < "$GIT_DIR/reject"\nfi\n'
                    'exit 0\n')
        os.chmod(hook, 0o755)

    # ------------------------------------------------------------------
    # plain git helpers (the simulator's own access; never faulted)
    def _run(self, args, cwd, env_extra=None, check=True):
        env = dict(os.environ)
        if env_extra:
            env.update(env_extra)
        p = subprocess.run(['git'] + list(args), cwd=cwd, env=env,
                           stdout=subprocess.PIPE, stderr=subprocess.STDOUT,
                           universal_newlines=True)
        if check and p.returncode != 0:
            raise HarnessError('git %s failed in %s: %s' % (
                ' '.join(args), cwd, p.stdout))
        return p.returncode, p.stdout

    def rgit(self, *args, check=True):
        return self._run(args, self.remote, check=check)[1]

    def rgit_ok(self, *args):
        return self._run(args, self.remote, check=False)[0] == 0

    def ugit(self, *args, actor='root', check=True):
        env = {'GIT_AUTHOR_NAME': actor, 'GIT_COMMITTER_NAME': actor,
               'GIT_AUTHOR_EMAIL': actor + '@sim',
               'GIT_COMMITTER_EMAIL': actor + '@sim'}
        return self._run(args, self.userdir, env, check=check)

    def refs(self):
        out = self.rgit('for-each-ref', '--format=%(refname) %(objectname)')
        res = {}
        for line in out.splitlines():
            name, sha = line.split()
            if name.startswith('refs/heads/'):
                res[name[len('refs/heads/'):]] = sha
            elif name.startswith('refs/tags/'):
                res['tag:' + name[len('refs/tags/'):]] = sha
        return res

    def heads(self):
        return {k: v for k, v in self.refs().items()
                if not k.startswith('tag:')}

    def is_ancestor(self, a, b):
        return self.rgit_ok('merge-base', '--is-ancestor', a, b)

    def tree(self, rev):
        return self.rgit('rev-parse', rev + '^{tree}').strip()

    # ------------------------------------------------------------------
    def _make_remote_content(self):
        cfg = self.cfg
        self.userdir = os.path.join(self.scratch, 'user')
        os.makedirs(self.userdir)
        self.ugit('init', '-q')
        self.ugit('remote', 'add', 'origin', self.remote)
        with open(os.path.join(self.userdir, 'base.txt'), 'w') as f:
            f.write('base\n')
        with open(os.path.join(self.userdir, 'shared.txt'), 'w') as f:
            f.write('shared base\n')
        with open(os.path.join(self.userdir, 'ver.txt'), 'w') as f:
            f.write('none\n')
        self.ugit('add', '-A')
        self.ugit('commit', '-q', '-m', 'initial')
        self.clock.advance(10)
        prev = 'master'
        # hotfix branches start from the base
        for hf in cfg.get('hotfixes', []):
            self.ugit('checkout', '-q', '-b', 'hotfix/' + hf, 'master')
            self._ucommit('hotfix_%s.txt' % hf, 'hotfix %s' % hf, 'root')
            self.clock.advance(10)
        for dev in sorted(cfg['devs'], key=ver_key):
            stab = cfg.get('stabs', {}).get(dev)
            if stab:
                self.ugit('checkout', '-q', '-b', 'stabilization/' + stab,
                          prev)
                self._ucommit('stab_%s.txt' % stab, 'stab ' + stab, 'root')
                prev = 'stabilization/' + stab
                self.clock.advance(10)
            self.ugit('checkout', '-q', '-b', 'development/' + dev, prev)
            with open(os.path.join(self.userdir, 'ver.txt'), 'w') as f:
                f.write(dev + '\n')
            self._ucommit('dev_%s.txt' % dev, 'dev ' + dev, 'root')
            prev = 'development/' + dev
            self.clock.advance(10)
        for extra in cfg.get('extra_branches', []):
            # ill-formed layouts / foreign branches: [name, from]
            self.ugit('checkout', '-q', '-b', extra[0], extra[1])
            self._ucommit('x_%s.txt' % extra[0].replace('/', '_'),
                          'extra ' + extra[0], 'root')
        for tag in cfg.get('tags', []):
            # [name, on-branch]
            self.ugit('tag', tag[0], tag[1])
        self.ugit('checkout', '-q', '--detach')
        self.ugit('branch', '-D', 'master')
        self.ugit('push', '-q', '--all', 'origin')
        self.ugit('push', '-q', '--tags', 'origin')

    def _ucommit(self, fname, msg, actor, content=None):
        self.ncommit += 1
        path = os.path.join(self.userdir, fname)
        os.makedirs(os.path.dirname(path), exist_ok=True)
        with open(path, 'w') as f:
            f.write((content or ('%s #%d' % (msg, self.ncommit))) + '\n')
        self.ugit('add', '-A', actor=actor)
        self.ugit('commit', '-q', '-m', '%s [c%d]' % (msg, self.ncommit),
                  actor=actor)
        return self.ugit('rev-parse', 'HEAD')[1].strip()

    def _write_settings(self):
        import yaml
        st = dict(self.cfg.get('settings', {}))
        data = {
            'repository_owner': OWNER, 'repository_slug': SLUG,
            'repository_host': 'mock', 'robot': ROBOT,
            'robot_email': 'robot@sim',
            'pull_request_base_url':
                'https://host.sim/%s/%s/pull-requests/{pr_id}' % (OWNER, SLUG),
            'commit_base_url':
                'https://host.sim/%s/%s/commits/{commit_id}' % (OWNER, SLUG),
            'build_key': 'pre-merge',
            'required_peer_approvals': 0,
            'required_leader_approvals': 0,
            'need_author_approval': False,
            'admins': ['root'],
            'project_leaders': ['lead'],
            'always_create_integration_pull_requests': True,
            'always_create_integration_branches': True,
        }
        data.update(st)
        self.settings_data = data
        self.settings_path = os.path.join(self.scratch, 'settings.yml')
        with open(self.settings_path, 'w') as f:
            yaml.safe_dump(data, f, sort_keys=False)

    def make_berte(self):
        from bert_e.settings import setup_settings
        from bert_e.bert_e import BertE
        settings = setup_settings(self.settings_path)
        settings['robot_password'] = self.cfg.get('robot_password',
                                                  'pw-' + ROBOT)
        settings['jira_token'] = 'jira-token'
        settings['cmd_line_options'] = list(
            self.cfg.get('cmd_line_options', []))
        settings['backtrace'] = True
        settings['quiet'] = True
        settings['disable_queues'] = not self.cfg.get('use_queue', True)
        settings['skip_queue_when_not_needed'] = bool(
            self.cfg.get('skip_queue', False))
        self.berte = BertE(settings)
        return self.berte

    @property
    def build_key(self):
        return self.settings_data.get('build_key', 'pre-merge')

    @property
    def use_queue(self):
        return self.cfg.get('use_queue', True)

    # ------------------------------------------------------------------
    # seams
    def _count_fault(self, kind):
        self.stats['faults'][kind] = self.stats['faults'].get(kind, 0) + 1

    def probe(self, name):
        self.stats['probes'][name] = self.stats['probes'].get(name, 0) + 1

    def _boundary(self, when, k):
        p = self.plan
        if not p or p.get('kind') not in ('kill', 'partition'):
            return
        if p['at'] == k and p['when'] == when and not self.fired:
            self.fired = True
            self._count_fault(p['kind'])
            if self.cur is not None:
                self.cur['fault_fired_at'] = (when, k)
            if p['kind'] == 'kill':
                self.dead = True
                raise SimKill()
            self.partitioned = True

    def _net_error(self, what):
        from bert_e.lib.simplecmd import CommandError
        return CommandError(
            "Command %s returned with code 128: fatal: unable to access "
            "remote: Could not resolve host (simulated partition)" % what)

    @staticmethod
    def _touches_remote(command):
        c = command.strip()
        if c.startswith(('git push', 'git fetch', 'git ls-remote',
                         'git remote update', 'git pull')):
            return True
        if c.startswith('git clone --mirror') and not c.endswith(' .git'):
            return True
        return False

    def _cmd(self, command, **kw):
        cwd = kw.get('cwd') or ''
        if not self.in_job or cwd.startswith(self.remote):
            return self._real_cmd(command, **kw)
        if self.dead:
            raise SimKill()
        self.ncmd += 1
        self.stats['gitcmds'] += 1
        c = command.strip()
        if self.cur is not None and self.cur.get('record_cmds'):
            self.cur['cmds'].append(c)
        p = self.plan or {}
        if p.get('kind') == 'thirdparty' and \
                p.get('cmd') == self.ncmd - 1 and not self.fired:
            # a third party acts right before this git command
            self.fired = True
            self._count_fault('thirdparty:' + p['action']['do'])
            self._third_party(p['action'])
        if p.get('kind') in ('giterr', 'githang') and \
                p.get('n') == self.ncmd - 1:
            # the sub-process itself fails or hangs, printing the remote URL
            # (with credentials) the way git does.  Seam: the `subprocess`
            # module attribute of bert_e.lib.simplecmd - the command string
            # Bert-E built is kept, another process runs in its place.
            import shlex
            import subprocess as real_subprocess
            import bert_e.lib.simplecmd as simplecmd
            self.fired = True
            self._count_fault(p['kind'])
            url = self.cfg.get('cred_url') or self.remote
            msg = ("fatal: unable to access '%s/': The requested URL "
                   "returned error: 403\nremote: Invalid credentials for "
                   "%s" % (url, url))
            fake = 'printf "%%s\\n" %s; printf "%%s\\n" %s >&2; ' % (
                shlex.quote(msg), shlex.quote(msg))
            kw2 = dict(kw)
            if p['kind'] == 'giterr':
                fake += 'exit 128'
            else:
                fake += 'sleep 20'
                kw2['timeout'] = 0.05
            if self.cur is not None:
                self.cur['faulted_cmd'] = c

            class Proxy:
                def __getattr__(self_, name):
                    return getattr(real_subprocess, name)

                def Popen(self_, args, **kwargs):
                    proc = real_subprocess.Popen(fake, **kwargs)
                    proc.args = args
                    return proc
            simplecmd.subprocess = Proxy()
            try:
                return self._real_cmd(command, **kw2)
            finally:
                simplecmd.subprocess = real_subprocess
        if not c.startswith('git push'):
            if self.partitioned and self._touches_remote(c):
                raise self._net_error(c)
            return self._real_cmd(command, **kw)
        # ---- a push: a remote-mutating operation
        j = self.npush
        self.npush += 1
        k = self.nmut
        self.nmut += 1
        rec = {'kind': 'push', 'cmd': c, 'k': k, 'j': j, 'ok': False}
        self.cur['mut'].append(rec)
        self._boundary('before', k)
        p = self.plan or {}
        if p.get('kind') == 'thirdparty' and p.get('push') == j:
            self.fired = True
            self._count_fault('thirdparty:' + p['action']['do'])
            self._third_party(p['action'])
        if self.on_before_push:
            self.on_before_push(self, j, c)
        rejecting = False
        if p.get('kind') == 'reject' and (
                p.get('push') == j or (p.get('persist') and j > p['push'])):
            rejecting = True
            with open(os.path.join(self.remote, 'reject'), 'w') as f:
                f.write(p['ref'] + '\n')
        if self.partitioned:
            raise self._net_error(c)
        before = self.heads_and_tags()
        try:
            out = self._real_cmd(command, **kw)
            rec['ok'] = True
        finally:
            if rejecting:
                os.unlink(os.path.join(self.remote, 'reject'))
            after = self.heads_and_tags()
            rec['changed'] = {
                r: [before.get(r), after.get(r)]
                for r in sorted(set(before) | set(after))
                if before.get(r) != after.get(r)}
            if rejecting and not rec['ok']:
                self.fired = True
                self._count_fault('reject')
        self._boundary('after', k)
        return out

    def heads_and_tags(self):
        return self.refs()

    def _host_call(self, kind, name, obj, orig, a, k):
        client = getattr(obj, 'client', None)
        login = getattr(client, 'login', None)
        if name == 'Repository.set_build_status':
            rev = k.get('revision', a[0] if a else None)
            self.status_history.append(
                (rev, k.get('key', a[1] if len(a) > 1 else None),
                 k.get('state', a[2] if len(a) > 2 else None),
                 self.clock.t, login))
            if k.get('description'):
                self.status_descriptions.append(str(k['description']))
        if not self.in_job or login != ROBOT:
            return orig(obj, *a, **k)
        if self.dead:
            raise SimKill()
        if kind == 'read':
            if self.partitioned:
                raise requests.exceptions.ConnectionError(
                    'simulated partition: ' + name)
            p = self.plan or {}
            if p.get('kind') == 'hosterr':
                self.nhostread += 1
                if self.nhostread - 1 == p['n']:
                    self.fired = True
                    self._count_fault('hosterr')
                    raise requests.exceptions.HTTPError(
                        '%s simulated for %s' % (p.get('code', 500), name))
            res = orig(obj, *a, **k)
            if self.host_answers is not None and \
                    name == 'Repository.get_build_status':
                self.host_answers.append(
                    [k.get('revision', a[0] if a else None),
                     k.get('key', a[1] if len(a) > 1 else None), res])
            return res
        # ---- a host write: a remote-mutating operation
        kk = self.nmut
        self.nmut += 1
        rec = {'kind': 'host', 'call': name, 'k': kk, 'ok': False}
        if name == 'PullRequestController.add_comment':
            rec['pr'] = obj.id
            rec['text'] = a[0] if a else k.get('msg')
        elif name == 'Repository.create_pull_request':
            rec['src'] = k.get('src_branch')
            rec['dst'] = k.get('dst_branch')
        elif name == 'PullRequestController.decline':
            rec['pr'] = obj.id
        self.cur['mut'].append(rec)
        self._boundary('before', kk)
        if self.partitioned:
            raise requests.exceptions.ConnectionError(
                'simulated partition: ' + name)
        res = orig(obj, *a, **k)
        rec['ok'] = True
        # webhooks the robot's own actions provoke
        if name == 'Repository.create_pull_request':
            rec['new_pr'] = res.id
            self.events.append({'k': 'pr', 'id': res.id, 'why': 'child'})
        elif name == 'PullRequestController.add_comment' and \
                self.robot_comment_events:
            self.events.append({'k': 'pr', 'id': obj.id, 'why': 'robotmsg'})
        elif name == 'PullRequestController.decline':
            self.events.append({'k': 'pr', 'id': obj.id, 'why': 'declined'})
        self._boundary('after', kk)
        return res

    # ------------------------------------------------------------------
    # third party acting inside a job (invoked from the before-push hook)
    def _third_party(self, action):
        do = action['do']
        log = {'do': do}
        self.ugit('fetch', '-q', '--prune', 'origin', check=False)
        if do == 'create_branch':
            name = action['name']
            base = action.get('base')
            heads = self.heads()
            if base not in heads:
                devs = sorted(h for h in heads
                              if h.startswith('development/'))
                if not devs:
                    log['skipped'] = True
                    self.third_party_log.append(log)
                    return
                base = devs[0]
            self.ugit('checkout', '-q', '-B', name, 'origin/' + base)
            sha = self._ucommit('tp_%d.txt' % self.ncommit, 'third party',
                                'dave')
            self.ugit('push', '-q', 'origin', name)
            log.update(name=name, sha=sha)
        elif do in ('push_src', 'force_src'):
            name = action['name']
            if name not in self.heads():
                log['skipped'] = True
            else:
                self.ugit('checkout', '-q', '-B', name, 'origin/' + name)
                if do == 'force_src':
                    self.ugit('commit', '-q', '--amend', '-m',
                              'amended by third party [c%d]' % self.ncommit,
                              actor='dave')
                    self.ncommit += 1
                    sha = self.ugit('rev-parse', 'HEAD')[1].strip()
                    self.ugit('push', '-q', '-f', 'origin', name)
                else:
                    sha = self._ucommit('tp_%d.txt' % self.ncommit,
                                        'third party push', 'dave')
                    self.ugit('push', '-q', 'origin', name)
                log.update(name=name, sha=sha)
        elif do == 'delete_branch':
            # the owner of a foreign branch deletes it
            name = action['name']
            if name in self.heads():
                self.ugit('push', '-q', 'origin', ':' + name, check=False)
                log.update(name=name, deleted=True)
            else:
                log['skipped'] = True
        elif do == 'push_tag':
            # somebody publishes an (annotated) tag of that name first
            name = action['name']
            heads = self.heads()
            on = action.get('on')
            if on not in heads:
                on = sorted(h for h in heads
                            if h.startswith('development/'))[0]
            self.ugit('tag', '-f', '-a', '-m', 'release ' + name, name,
                      'origin/' + on, actor='dave')
            rc, _ = self.ugit('push', '-q', 'origin', 'refs/tags/' + name,
                              check=False)
            log.update(name=name, on=on, pushed=(rc == 0))
        else:
            raise HarnessError('unknown third-party action %r' % do)
        log['job'] = self.njob
        self.third_party_log.append(log)
        if self.cur is not None:
            self.cur.setdefault('third_party', []).append(log)

    # ------------------------------------------------------------------
    # jobs
    def run_job(self, job, desc, plan=None, record_cmds=False):
        """put_job + process_task on the current instance, with `plan`
        armed.  Returns the job record."""
        self.njob += 1
        self.stats['jobs'] += 1
        rec = {'n': self.njob, 'job': desc, 'mut': [], 'plan': plan,
               'refs_before': self.refs(), 't': self.clock.t,
               'record_cmds': record_cmds, 'cmds': [],
               'prs_before': self.pr_states(),
               'ncomments_before': len(self.mock.Comment.items)}
        self.host_answers = rec['answers'] = []
        self.cur = rec
        self.plan = plan
        self.fired = False
        self.dead = False
        self.partitioned = False
        self.nmut = self.npush = self.ncmd = 0
        self.nhostread = 0
        comments_before = len(self.mock.Comment.items)
        prs_before = len(self.mock.PullRequest.items)
        self.loghandler.records = []
        self.in_job = True
        killed = False
        crashed = None
        alarm = getattr(self, 'job_alarm', None)
        if alarm:
            import signal

            def on_alarm(signum, frame):
                raise SimHang('job still running after %d s of wall clock '
                              '(blocked)' % alarm)
            old_handler = signal.signal(signal.SIGALRM, on_alarm)
            signal.alarm(alarm)
        try:
            self.berte.put_job(job)
            self.berte.process_task()
        except SimHang as err:
            crashed = 'SimHang: %s' % err
        except SimKill:
            killed = True
        except BaseException as err:  # process_task must never raise
            crashed = '%s: %s' % (type(err).__name__, err)
        finally:
            if alarm:
                signal.alarm(0)
                signal.signal(signal.SIGALRM, old_handler)
            self.in_job = False
            self.plan = None
        rec['killed'] = killed
        rec['crashed'] = crashed
        rec['fired'] = self.fired
        rec['status'] = job.status
        rec['details'] = job.details
        rec['ncmd'] = self.ncmd
        rec['refs_after'] = self.refs()
        rec['prs_after'] = self.pr_states()
        self.host_answers = None
        rec['new_comments'] = [
            {'pr': c.pull_request_id, 'by': c.user['username'],
             'text': c.content['raw']}
            for c in self.mock.Comment.items[comments_before:]]
        rec['new_prs'] = [p.id for p in
                          self.mock.PullRequest.items[
                              :len(self.mock.PullRequest.items) - prs_before]]
        rec['pending_after'] = [str(j) for j in
                                list(self.berte.task_queue.queue)]
        rec['logs'] = self.loghandler.records
        self.loghandler.records = []
        self.cur = None
        st = rec['status'] or ('KILLED' if killed else '')
        self.stats['statuses'][st] = self.stats['statuses'].get(st, 0) + 1
        for name, sha in rec['refs_after'].items():
            if name.startswith(DEST_PREFIXES):
                hist = self.dest_history.setdefault(name, [])
                if not hist or hist[-1] != sha:
                    hist.append(sha)
            elif name.startswith(('w/', 'q/')):
                if sha not in self.robot_tips:
                    self.robot_tips.append(sha)
        if killed:
            # the process is gone: only remote, host and mirror cache survive
            self.restart(wipe=False, count=False)
        self.jobs.append(rec)
        self.clock.advance(1)
        if self.on_job_done:
            self.on_job_done(rec)
        return rec

    def restart(self, wipe=False, count=True):
        # drop whatever the old instance's clone dir was
        try:
            if self.berte and self.berte.git_repo.tmp_directory:
                shutil.rmtree(self.berte.git_repo.tmp_directory,
                              ignore_errors=True)
        except Exception:
            pass
        if wipe:
            shutil.rmtree(os.path.join(self.scratch, 'home', '.bert-e'),
                          ignore_errors=True)
        if count:
            self._count_fault('restart' + ('+wipe' if wipe else ''))
        # a new process: import-time state of the process-global registries
        from copy import deepcopy
        from bert_e.reactor import Reactor
        for m, pristine in zip(Reactor.__callbacks__.maps,
                               World._pristine_reactor):
            m.clear()
            m.update(deepcopy(pristine))
        try:
            from bert_e.git_host.cache import BUILD_STATUS_CACHE
            BUILD_STATUS_CACHE.clear()
        except Exception:
            pass
        self.make_berte()

    def make_job(self, ev):
        from bert_e.job import CommitJob, PullRequestJob
        b = self.berte
        k = ev['k']
        if k == 'pr':
            try:
                pr = b.project_repo.get_pull_request(int(ev['id']))
            except Exception:
                return None, None
            return PullRequestJob(bert_e=b, pull_request=pr), \
                'pr:%s' % ev['id']
        if k == 'commit':
            return CommitJob(bert_e=b, commit=ev['sha']), \
                'commit:%s' % ev['sha'][:10]
        if k == 'api':
            from bert_e.jobs.create_branch import CreateBranchJob
            from bert_e.jobs.delete_branch import DeleteBranchJob
            from bert_e.jobs.delete_queues import DeleteQueuesJob
            from bert_e.jobs.eval_pull_request import EvalPullRequestJob
            from bert_e.jobs.force_merge_queues import ForceMergeQueuesJob
            from bert_e.jobs.rebuild_queues import RebuildQueuesJob
            cls = {'create_branch': CreateBranchJob,
                   'delete_branch': DeleteBranchJob,
                   'delete_queues': DeleteQueuesJob,
                   'eval_pr': EvalPullRequestJob,
                   'force_merge': ForceMergeQueuesJob,
                   'rebuild_queues': RebuildQueuesJob}[ev['job']]
            kwargs = dict(ev.get('kwargs') or {})
            settings = dict(ev.get('json') or {})
            job = cls(kwargs=kwargs, user='root', settings=settings,
                      bert_e=b)
            return job, 'api:%s:%s' % (ev['job'], json.dumps(
                [kwargs, settings], sort_keys=True))
        raise HarnessError('unknown event %r' % (ev,))

    def deliver(self, ev, plan=None, record_cmds=False):
        """Hand one event to the instance and process every job the queue
        then holds (the first with `plan` armed).  Returns job records."""
        job, desc = self.make_job(ev)
        if job is None:
            return []
        recs = []
        rec = self.run_job(job, desc, plan, record_cmds)
        rec['event'] = ev
        recs.append(rec)
        guard = 0
        while self.berte.task_queue.qsize() and guard < 8:
            guard += 1
            nxt = self.berte.task_queue.queue[0]
            r = self._run_pending(nxt)
            recs.append(r)
        return recs

    def _run_pending(self, job):
        """Process the job at the head of the task queue (already put)."""
        # run_job calls put_job, which would suppress the duplicate: the job
        # is already in the queue, so only process_task must happen.
        real_put = self.berte.put_job
        self.berte.put_job = lambda j: None
        try:
            return self.run_job(job, 'pending:%s' % job)
        finally:
            self.berte.put_job = real_put

    # ------------------------------------------------------------------
    # observations
    def pr_table(self):
        out = []
        for p in sorted(self.mock.PullRequest.items, key=lambda p: p.id):
            out.append({
                'id': p.id, 'author': p.author['username'],
                'src': p.source['branch']['name'],
                'dst': p.destination['branch']['name'],
                'state': p.state, 'title': p.title,
                'description': p.description,
                'approved': sorted(x['user']['username']
                                   for x in p.participants if x['approved']),
                'changes': sorted(x['user']['username']
                                  for x in p.participants
                                  if x['changes_requested']),
                'participants': sorted(x['user']['username']
                                       for x in p.participants),
            })
        return out

    def pr_states(self):
        return {p.id: p.state for p in self.mock.PullRequest.items}

    def comments(self, pr_id=None):
        return [{'id': c.id, 'pr': c.pull_request_id,
                 'by': c.user['username'], 'text': c.content['raw']}
                for c in self.mock.Comment.items
                if pr_id is None or c.pull_request_id == pr_id]

    def host_pr(self, pr_id, as_user=ROBOT):
        try:
            return self.repos[as_user].get_pull_request(int(pr_id))
        except Exception:
            return None

    def green(self, sha, key=None):
        key = key or self.build_key
        return any(h[0] == sha and h[1] == key and h[2] == 'SUCCESSFUL'
                   for h in self.status_history)

    def observable(self):
        """Everything an outside observer can see (refs, PRs, comments)."""
        return {'refs': self.refs(), 'prs': self.pr_table(),
                'comments': [(c['pr'], c['by'], c['text'])
                             for c in self.comments()]}

    def abstract_state(self, last_status=''):
        heads = self.heads()
        prs = []
        for p in self.pr_table():
            if p['author'] == ROBOT:
                continue
            nw = sum(1 for h in heads if h.startswith('w/') and
                     h.endswith('/' + p['src']))
            nq = sum(1 for h in heads if h.startswith('q/w/%d/' % p['id']))
            last = ''
            for c in reversed(self.comments(p['id'])):
                if c['by'] == ROBOT:
                    m = re.search(r'\(code: (\w+)\)|^#+ *(.+)$', c['text'],
                                  re.M)
                    last = c['text'].split('\n', 1)[0][:30]
                    break
            prs.append((p['state'], nw, nq, last,
                        len(p['approved']), len(p['changes'])))
        dests = tuple(sorted((d, len(h)) for d, h in
                             self.dest_history.items()))
        nqueue = sum(1 for h in heads if h.startswith('q/w/'))
        return digest([sorted(prs), dests, nqueue, last_status])

    def step_digest(self, op, recs):
        d = digest({
            'op': op, 'status': [r['status'] for r in recs],
            'killed': [r['killed'] for r in recs],
            'refs': self.refs(),
            'prs': [(p['id'], p['state'], p['src'], p['dst'])
                    for p in self.pr_table()],
            'ncomments': len(self.mock.Comment.items),
            'pending': [str(j) for j in list(self.berte.task_queue.queue)],
            'events': self.events, 't': self.clock.t})
        self.trace.append(d)
        return d

    # ------------------------------------------------------------------
    # snapshots
    def fork_variant(self, fn, timeout=600):
        """Run fn(self) in a forked child on the live scratch dir; restore
        the dir afterwards.  Returns fn's JSON-able result."""
        backup = self.scratch + '.snap'
        if os.path.exists(backup):
            shutil.rmtree(backup)
        shutil.copytree(self.scratch, backup, symlinks=True)
        r, wfd = os.pipe()
        sys.stdout.flush()
        sys.stderr.flush()
        pid = os.fork()
        if pid == 0:
            os.close(r)
            code = 0
            try:
                try:
                    res = {'ok': fn(self)}
                except BaseException as err:
                    import traceback
                    from .core import Violation
                    if isinstance(err, Violation):
                        res = {'violation': err.as_dict()}
                    else:
                        res = {'error': traceback.format_exc()}
                data = json.dumps(res, default=str).encode()
                with os.fdopen(wfd, 'wb') as f:
                    f.write(data)
            except BaseException:
                code = 3
            finally:
                os._exit(code)
        os.close(wfd)
        chunks = []
        with os.fdopen(r, 'rb') as f:
            while True:
                b = f.read(65536)
                if not b:
                    break
                chunks.append(b)
        os.waitpid(pid, 0)
        shutil.rmtree(self.scratch, ignore_errors=True)
        os.rename(backup, self.scratch)
        try:
            res = json.loads(b''.join(chunks).decode())
        except ValueError:
            raise HarnessError('variant child died without a result')
        if 'error' in res:
            raise HarnessError('variant child failed: ' + res['error'])
        if 'violation' in res:
            from .core import Violation
            v = res['violation']
            raise Violation(v['property'], v['key'], v['message'],
                            v['detail'])
        return res['ok']
