"""C06 - the build gate requires a green build on every integration
commit."""
from .. import ops
from ..core import Violation
from ..world import ROBOT
from .base import E1Prop
from .common import msg_title, build_bypassed, user_pr_by_src
from .c02 import is_push_all

BAD = ('FAILED', 'STOPPED')
PENDING = ('NOTSTARTED', 'INPROGRESS')


def refs_before_last_push_all(rec):
    """Remote refs just before the job's final push of everything."""
    refs = dict(rec['refs_before'])
    pushes = [m for m in rec['mut'] if m['kind'] == 'push']
    last_all = None
    for i, m in enumerate(pushes):
        if is_push_all(m['cmd']):
            last_all = i
    for i, m in enumerate(pushes):
        if last_all is not None and i >= last_all:
            break
        for r, (o, n) in (m.get('changed') or {}).items():
            if n is None:
                refs.pop(r, None)
            else:
                refs[r] = n
    return refs


def integration_tips(refs, src):
    tips = {}
    if src in refs:
        tips[src] = refs[src]
    for r, sha in refs.items():
        if r.startswith('w/') and r.endswith('/' + src) and \
                '/' not in r[2:-len(src) - 1]:
            tips[r] = sha
    return tips


class C06(E1Prop):
    ID = 'C06'
    PROFILE = {'p_queue': 0.7, 'p_skip_queue': 0.5, 'p_stab': 0.3,
               'p_hotfix': 0.2, 'p_nokey': 0.08}
    WEIGHTS = {'open_pr': 6, 'ci': 12, 'ci_green_all': 2, 'deliver': 10,
               'deliver_all': 2, 'api': 0.4, 'commit': 2.5, 'comment': 0.8,
               'wcommit': 0.6, 'restart': 0.1, 'rebase': 0.4,
               'merge_dst': 0.4, 'amend': 0.4}
    GEN_KW = {'ci_green_bias': 0.55,
              'api_jobs': ['eval_pr', 'force_merge'],
              'comment_texts': ['@%s bypass_build_status' % ROBOT,
                                '/bypass_build_status', 'nice work',
                                '@%s create_pull_requests' % ROBOT]}
    EXPECTED_PROBES = ['gate-passed', 'gate-failed', 'gate-waiting',
                      'stale-green-on-superseded-tip']

    def begin(self, w, rng):
        super().begin(w, rng)
        self.nrace = 0
        orig = self.gen.g_comment

        def g_comment(w_):
            op = orig(w_)
            if op and rng.random() < 0.5:
                op['actor'] = 'root'
            return op
        self.gen.g_comment = g_comment
        if rng.random() < 0.2:
            w.note_author_bypass = True

    def gen_config(self, rng, tier):
        self.tier = tier
        cfg = super().gen_config(rng, tier)
        r = rng.random()
        if r < 0.12:
            cfg['settings']['pr_author_options'] = {
                'alice': ['bypass_build_status']}
        elif r < 0.3:
            # several authors with different bypass lists, in any order
            items = [('alice', rng.choice([['bypass_build_status'],
                                           ['bypass_jira_check'], []])),
                     ('bob', rng.choice([['bypass_build_status'],
                                         ['bypass_peer_approval'], []])),
                     ('carol', rng.choice([['bypass_build_status',
                                            'bypass_author_approval'], []]))]
            rng.shuffle(items)
            cfg['settings']['pr_author_options'] = dict(items)
        if rng.random() < 0.08:
            cfg['cmd_line_options'] = cfg['cmd_line_options'] + [
                'bypass_build_status']
        return cfg

    def next_op(self, w, rng, step, nsteps):
        from .. import ops
        if step == 0:
            self.script = []
            dests = ops.dest_branches(w.cfg)
            if len(dests) >= 2 and rng.random() < 0.3:
                # story: A's integration commits are built and green; then
                # a later destination moves (B lands there) and A is
                # evaluated again before CI said anything new
                lo = rng.choice(dests[:-1])
                later = dests[dests.index(lo) + 1:]
                hi = rng.choice(later)
                seq = [
                    {'op': 'open_pr', 'actor': 'alice',
                     'src': 'bugfix/TEST-941', 'dst': lo, 'kind': 'new'},
                    {'op': 'eval', 'p': 0},
                    {'op': 'ci_green_all', 'which': ['src', 'w']},
                    {'op': 'open_pr', 'actor': 'bob',
                     'src': 'feature/TEST-942', 'dst': hi, 'kind': 'new'},
                    {'op': 'eval', 'p': 1},
                    {'op': 'ci', 'state': 'SUCCESSFUL', 'target': ['src', 1]},
                    {'op': 'ci', 'state': 'SUCCESSFUL',
                     'target': ['w', 1, 0]},
                    {'op': 'ci', 'state': 'SUCCESSFUL',
                     'target': ['w', 1, 1]},
                    {'op': 'eval', 'p': 1},
                    {'op': 'ci_green_all', 'which': ['q']},
                    {'op': 'deliver_all'},
                    {'op': 'eval', 'p': 0},
                    {'op': 'ci_green_all', 'which': ['src', 'w']},
                    {'op': 'eval', 'p': 0},
                ]
                for o in seq:
                    o['dt'] = rng.choice([1, 5, 30])
                self.script = seq
            elif len(dests) >= 2 and rng.random() < 0.3:
                # story: the branch was cut below the destination tip; its
                # integration commits are built and green; the author then
                # merges the destination into the branch (new source tip =
                # a merge commit bringing nothing the w/ branches lack) and
                # CI reports green on that new source tip only
                lo = rng.choice(dests[:-1])
                seq = [
                    {'op': 'open_pr', 'actor': 'alice',
                     'src': 'bugfix/TEST-945', 'dst': lo, 'kind': 'new',
                     'from': 'old'},
                    {'op': 'eval', 'p': 0},
                    {'op': 'ci_green_all', 'which': ['src', 'w']},
                    {'op': 'merge_dst', 'p': 0},
                    {'op': 'ci', 'state': 'SUCCESSFUL', 'target': ['src', 0]},
                    {'op': 'eval', 'p': 0},
                    {'op': 'deliver_all'},
                ]
                for o in seq:
                    o['dt'] = rng.choice([1, 5, 30])
                self.script = seq
        if getattr(self, 'script', None):
            return self.script.pop(0)
        op = self.gen.next(w)
        if op and op['op'] == 'deliver' and self.nrace < (
                2 if getattr(self, 'tier', 'quick') == 'quick' else 6) \
                and rng.random() < 0.25:
            # the same job, also tried with the author pushing one more
            # commit on a source branch between the robot's clone and its
            # decision (the integration tips change under its feet)
            self.nrace += 1
            op = dict(op, op='raceprobe', pick=rng.randrange(10 ** 9))
        return op

    def apply(self, w, op):
        if op['op'] != 'raceprobe':
            return ops.apply_op(w, op)
        import random
        w.stats['ops'] += 1
        w.clock.advance(op.get('dt', 1))
        if not w.events:
            w.step_digest(op, [])
            return []
        ev = w.events.pop(op.get('i', 0) % len(w.events))
        if 'plans' not in op:
            def clean(w_):
                recs = w_.deliver(dict(ev))
                return recs[0]['ncmd'] if recs else 0
            ncmd = w.fork_variant(clean)
            r = random.Random(op['pick'])
            srcs = sorted(p['src'] for p in w.pr_table()
                          if p['author'] != ROBOT and p['state'] == 'OPEN'
                          and p['src'] in w.heads())
            plans = []
            if srcs and ncmd:
                for n in sorted(r.sample(range(ncmd), min(3, ncmd))):
                    plans.append({'kind': 'thirdparty', 'cmd': n, 'action': {
                        'do': 'push_src', 'name': r.choice(srcs)}})
            op['plans'] = plans
        for plan in list(op['plans']):
            def run(w_, plan=plan):
                recs = w_.deliver(dict(ev), plan=dict(plan))
                for rec in recs:
                    self.check_job(w_, rec)
                return recs[0]['status'] if recs else None
            try:
                st = w.fork_variant(run)
            except Violation as v:
                op['plans'] = [plan]
                v.detail['plan'] = plan
                raise
            w._count_fault('thirdparty:push_src@cmd')
            w.probe('job-raced-by-a-source-push:%s' % st)
        recs = w.deliver(ev)
        w.step_digest(op, recs)
        return recs

    def current(self, w, sha):
        return w.mock.Repository.revisions.get((sha, w.build_key),
                                               'NOTSTARTED')

    def check_job(self, w, rec):
        key = w.build_key
        status = rec['status']
        if not rec['job'].startswith(('pr:', 'commit:', 'pending:',
                                      'api:eval_pr')):
            return
        if status in ('Queued', 'SuccessMessage'):
            # which PR?
            pids = []
            if status == 'Queued':
                for r in rec['refs_after']:
                    if r.startswith('q/w/') and r not in rec['refs_before']:
                        pids.append(int(r.split('/')[2]))
            else:
                pids = [pid for pid, st in rec['prs_after'].items()
                        if st == 'MERGED' and
                        rec['prs_before'].get(pid) == 'OPEN']
            for pid in sorted(set(pids)):
                pr = w.host_pr(pid)
                if pr is None or pr.author == ROBOT:
                    continue
                if not key:
                    w.probe('no-build-key')
                    continue
                if build_bypassed(w, pid):
                    w.probe('gate-bypassed')
                    continue
                refs = rec['refs_after'] if status == 'Queued' else \
                    refs_before_last_push_all(rec)
                tips = integration_tips(refs, pr.src_branch)
                raced = [t for t in rec.get('third_party') or []
                         if t.get('do') == 'push_src' and
                         t.get('name') == pr.src_branch and t.get('sha')]
                if raced and pr.src_branch in rec['refs_before']:
                    # the author pushed while the job was running: what the
                    # job evaluated (and what enters the queue) is the tip
                    # it cloned, not the one that arrived meanwhile
                    tips[pr.src_branch] = rec['refs_before'][pr.src_branch]
                    w.probe('gate-passed-while-the-source-moved')
                w.probe('gate-passed')
                # the integration commits are those of the *current* source
                # tip (new source commits renew them)
                src_tip = tips.get(pr.src_branch)
                for name, sha in sorted(tips.items()):
                    if src_tip and name != pr.src_branch and \
                            not w.is_ancestor(src_tip, sha):
                        raise Violation(
                            'C06', 'C06:entered-on-integration-commit-'
                            'without-the-source-tip',
                            'PR #%d ended %s on %s = %s, which does not '
                            'contain the current source tip %s (the build '
                            'reports are those of a superseded source)' % (
                                pid, status, name, sha[:10], src_tip[:10]),
                            {'pr': pid})
                if status == 'SuccessMessage':
                    # merged directly: the integration commit of a target
                    # beyond the first is the one that integrates the PR
                    # with that target *as it is now* (a destination update
                    # between build report and evaluation renews it)
                    from ..models import layout_from_refs
                    before = rec['refs_before']
                    lay = layout_from_refs(before)
                    for t in (lay.targets(pr.dst_branch) or [])[1:]:
                        name = 'w/%s/%s' % (t.split('/', 1)[1],
                                            pr.src_branch)
                        if name in tips and t in before and \
                                not w.is_ancestor(before[t], tips[name]):
                            raise Violation(
                                'C06', 'C06:merged-on-superseded-'
                                'integration-commit',
                                'PR #%d was merged directly although %s '
                                '(%s, the commit CI reported on) does not '
                                'contain the current tip %s of %s' % (
                                    pid, name, tips[name][:10],
                                    before[t][:10], t), {'pr': pid})
                        w.probe('direct-merge-on-current-integration-'
                                'commit')
                for name, sha in sorted(tips.items()):
                    st = self.current(w, sha)
                    if st != 'SUCCESSFUL':
                        raise Violation(
                            'C06', 'C06:entered-without-green:%s:%s' % (
                                status, st),
                            'PR #%d ended %s although integration commit '
                            '%s (tip of %s) has build status %s under key '
                            '%r' % (pid, status, sha[:10], name, st, key),
                            {'pr': pid, 'tips': tips,
                             'answers': rec['answers']})
            return
        if status in ('BuildFailed', 'BuildNotStarted', 'BuildInProgress'):
            answers = rec['answers']
            states = [a[2] for a in answers if a[1] == key]
            if status == 'BuildFailed':
                w.probe('gate-failed')
                if not any(s in BAD for s in states):
                    raise Violation(
                        'C06', 'C06:build-failed-without-failure',
                        'job ended BuildFailed but no integration commit is '
                        'FAILED or STOPPED (answers %s)' % (answers,), {})
                # the author is told: a "Build failed" robot comment is in
                # the PR's history
                tips = {a[0] for a in answers}
                pr = None
                for r, sha in rec['refs_after'].items():
                    if sha in tips:
                        src = r.split('/', 2)[2] if r.startswith('w/') \
                            else r
                        pr = user_pr_by_src(w, src) or pr
                if pr is not None:
                    # told about *this* failure: a new "Build failed"
                    # comment in this job, or the robot's last message is
                    # already a "Build failed" that names a failing commit
                    failed = [a[0] for a in answers if a[2] in BAD]
                    new = any(c['pr'] == pr['id'] and c['by'] == ROBOT and
                              msg_title(c['text']) == 'Build failed'
                              for c in rec['new_comments'])
                    last = [c for c in w.comments(pr['id'])
                            if c['by'] == ROBOT]
                    already = bool(last) and msg_title(
                        last[-1]['text']) == 'Build failed' and any(
                        sha in last[-1]['text'] for sha in failed)
                    told = new or already
                    if told:
                        w.probe('build-failure-reported:%s' % (
                            'new-comment' if new else 'already-said'))
                    if not told:
                        raise Violation(
                            'C06', 'C06:build-failed-not-reported',
                            'PR #%d: a build is %s but the author was '
                            'never told' % (pr['id'], states), {})
            else:
                w.probe('gate-waiting')
                if any(s in BAD for s in states):
                    raise Violation(
                        'C06', 'C06:waiting-despite-failure:%s' % status,
                        'job ended %s although an integration commit is '
                        'FAILED/STOPPED (answers %s)' % (status, answers),
                        {})
                for c in rec['new_comments']:
                    if c['by'] == ROBOT and msg_title(c['text']) in (
                            'Build failed',):
                        raise Violation(
                            'C06', 'C06:comment-while-waiting',
                            'Bert-E commented %r while waiting for builds'
                            % msg_title(c['text']), {})
            # stale green probe: some superseded robot tip is green while
            # the current tip is not
            heads = set(rec['refs_after'].values())
            if any(h[2] == 'SUCCESSFUL' and h[0] not in heads
                   for h in w.status_history):
                w.probe('stale-green-on-superseded-tip')

    def nontrivial(self, w):
        p = w.stats['probes']
        return p.get('gate-passed', 0) + p.get('gate-failed', 0) + \
            p.get('gate-waiting', 0) > 0
