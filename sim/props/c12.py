"""C12 - held-back, finished and foreign pull requests are left alone."""
import re

from .. import ops
from ..core import Violation
from ..models import DEV_RE, STAB_RE, HOTFIX_RE
from ..world import ROBOT
from .base import E1Prop
from .common import addressed_keywords, msg_title

PRODUCER_RE = re.compile(
    r'^((improvement|bugfix|feature|project|documentation|design|dependabot'
    r'|epic|bug)/.+|development/\d+(\.\d+)?|stabilization/\d+\.\d+\.\d+)$')


def is_foreign(p):
    dst_ok = bool(DEV_RE.match(p['dst']) or STAB_RE.match(p['dst']) or
                  HOTFIX_RE.match(p['dst']))
    src_ok = bool(PRODUCER_RE.match(p['src']))
    return not (dst_ok and src_ok)


def hold_of(w, p, states):
    """Reason why PR p (a pr_table row) must be left alone, or None.
    `states` maps PR id -> state at the moment of interest."""
    st = states.get(p['id'], p['state'])
    if st in ('MERGED', 'DECLINED'):
        return 'closed'
    if is_foreign(p):
        return 'foreign'
    for c in w.comments(p['id']):
        if c['by'] == ROBOT:
            continue
        kws = addressed_keywords(w, c['text'])
        for kw in kws:
            if kw == 'wait':
                return 'wait'
            if kw.startswith('after_pull_request='):
                val = kw.split('=', 1)[1]
                try:
                    n = int(val)
                except ValueError:
                    return 'unspecified'   # non-numeric: statement silent
                if n == p['id']:
                    return 'unspecified'
                if n not in states:
                    return 'dep-unknown'
                if states[n] != 'MERGED':
                    return 'dep-' + states[n].lower()
    return None


class C12(E1Prop):
    ID = 'C12'
    PROFILE = {'p_queue': 0.7, 'p_skip_queue': 0.5, 'p_stab': 0.25,
               'p_hotfix': 0.2, 'ndev': [1, 2, 2, 3]}
    WEIGHTS = {'open_pr': 7, 'ci': 1, 'ci_green_all': 8, 'deliver': 9,
               'deliver_all': 5, 'api': 0.6, 'commit': 1.0, 'comment': 7,
               'wcommit': 0, 'restart': 0.1, 'amend': 0, 'rebase': 0,
               'reset_src': 0, 'merge_dst': 0, 'decline': 1.0,
               'delete_comment': 3, 'approve': 0.5, 'tag': 0,
               'delete_src': 0, 'request_changes': 0, 'dismiss': 0,
               'comment_review': 0}
    GEN_KW = {'ci_green_bias': 0.95, 'max_prs': 5, 'only_new': True,
              'api_jobs': ['eval_pr', 'force_merge', 'rebuild_queues']}
    NOPS = (10, 24)
    RUN_TIMEOUT = 900
    EXPECTED_PROBES = ['held:wait', 'held:dep-open', 'held:closed',
                      'held:foreign', 'resumed-after-lift']

    def begin(self, w, rng):
        super().begin(w, rng)
        self.dirty = set()       # PR ids with obstacles other than holds
        self.was_held = set()
        gen = self.gen
        orig_open = gen.g_open_pr

        def g_open_pr(w_):
            op = orig_open(w_)
            if op is None:
                return None
            op['kind'] = 'new'
            op['from'] = 'tip'
            r = rng.random()
            if r < 0.12:
                op['src'] = rng.choice([
                    'user/alice/wip-%d', 'hotfix/fix-%d', 'random-%d',
                    'release/%d.0', 'wip/q/%d',
                    'wip/feature/%d', 'Feature/TEST-%d']) % gen.nsrc
                if rng.random() < 0.4:
                    # ... towards a well-formed destination that is gone
                    # by the time the robot looks
                    op['dst'] = rng.choice([
                        'development/9.%d', 'stabilization/9.9.%d',
                        'hotfix/9.8.%d', 'development/9%d']) % gen.nsrc
                    op['create_dst'] = True
                    op['drop_dst'] = True
            elif r < 0.2:
                op['dst'] = rng.choice(['feature/base-%d', 'release/4.%d',
                                        'user/bob/base-%d', 'trunk-%d',
                                        'development/x%d',
                                        # look-alikes of destination names
                                        'stabilization/4.3.%d-rc1',
                                        'stabilization/5.1.%d/backup',
                                        'hotfix/4.3.%d-old',
                                        'development/10.%d.x']) % gen.nsrc
                op['create_dst'] = True
            else:
                op['src'] = '%s/TEST-%d' % (rng.choice(
                    ['bugfix', 'feature', 'improvement']), gen.nsrc)
            return op
        gen.g_open_pr = g_open_pr

        def g_comment(w_):
            p = gen.pick_pr(w_, open_only=False)
            if p is None:
                return None
            table = w_.pr_table()
            ids = [x['id'] for x in table]
            target = rng.choice(ids + [999, 'abc', 11, 12, 21])
            merged = [x['id'] for x in table if x['state'] == 'MERGED']
            unmerged = [x['id'] for x in table if x['state'] != 'MERGED']
            if merged and unmerged and rng.random() < 0.35:
                # several dependencies in mixed states, in any order
                deps = [rng.choice(merged), rng.choice(unmerged)]
                if rng.random() < 0.4:
                    deps.append(rng.choice(ids))
                rng.shuffle(deps)
                return {'op': 'comment', 'p': p, 'actor': rng.choice(
                    ['alice', 'bob', 'carol', 'root']),
                    'text': '@%s %s' % (ROBOT, ' '.join(
                        'after_pull_request=%s' % d for d in deps))}
            text = rng.choice([
                '@%s wait' % ROBOT, '/wait', '@%s: wait' % ROBOT,
                '@%s after_pull_request=%s' % (ROBOT, target),
                '/after_pull_request=%s' % target,
                '@%s after_pull_request=%s' % (ROBOT, target),
                'please wait for me', 'wait',
                '@%s after_pull_request=%s after_pull_request=%s' % (
                    ROBOT, target, rng.choice(ids + [999]))])
            return {'op': 'comment', 'p': p, 'text': text,
                    'actor': rng.choice(['alice', 'bob', 'carol', 'root'])}
        gen.g_comment = g_comment

        def g_delete_comment(w_):
            p = gen.pick_pr(w_, open_only=False)
            if p is None:
                return None
            return {'op': 'delete_comment', 'p': p, 'ci': rng.randrange(6),
                    'match': rng.choice(['wait', 'after_pull_request',
                                         'after_pull_request', ''])}
        gen.g_delete_comment = g_delete_comment

    def next_op(self, w, rng, step, nsteps):
        if getattr(self, 'script', None):
            return self.script.pop(0)
        if step >= 3 and rng.random() < 0.3:
            table = [p for p in w.pr_table() if p['author'] != ROBOT]
            merged = [p for p in table if p['state'] == 'MERGED']
            opened = [p for p in table if p['state'] == 'OPEN' and
                      not is_foreign(p)]
            if merged and len(opened) >= 2:
                # a dependency story: X waits for an open and a merged PR
                x, y = rng.sample(opened, 2)
                deps = [y['id'], rng.choice(merged)['id']]
                rng.shuffle(deps)
                px = w.user_prs.index(x['id'])
                self.script = [
                    {'op': 'comment', 'p': px, 'actor': rng.choice(
                        ['alice', 'bob', 'root']), 'dt': 5,
                     'text': '@%s %s' % (ROBOT, rng.choice([' ', ', ']).join(
                         'after_pull_request=%d' % d for d in deps))},
                    {'op': 'ci_green_all', 'which': ['src', 'w', 'q'],
                     'dt': 1},
                    {'op': 'eval', 'p': px, 'dt': 1},
                    {'op': 'ci_green_all', 'which': ['src', 'w', 'q'],
                     'dt': 1},
                    {'op': 'eval', 'p': px, 'dt': 1}]
                return self.script.pop(0)
        return self.gen.next(w)

    def check_job(self, w, rec):
        before, after = rec['refs_before'], rec['refs_after']
        new_refs = [r for r in after if r not in before]
        table = w.pr_table()
        # (the PRs this very job created: one delivery may run several
        # jobs, and the table is read after all of them)
        new_children = [p for p in table if p['author'] == ROBOT and
                        p['id'] in (rec.get('new_prs') or [])]
        for p in table:
            if p['author'] == ROBOT or p['id'] not in rec['prs_before']:
                continue
            h = hold_of(w, p, rec['prs_before'])
            if h is None or h == 'unspecified':
                continue
            w.probe('held:' + h)
            self.was_held.add(p['id'])
            pid, src = p['id'], p['src']
            made = [r for r in new_refs
                    if (r.startswith('w/') and r.endswith('/' + src)) or
                    r.startswith('q/w/%d/' % pid)]
            if made:
                raise Violation(
                    'C12', 'C12:branches-created-while-held:%s' % h,
                    'PR #%d (%s -> %s) is held (%s) but job %s created %s'
                    % (pid, src, p['dst'], h, rec['job'], made), {})
            kids = [c for c in new_children
                    if 'PR#%d ' % pid in c['title']]
            if kids:
                raise Violation(
                    'C12', 'C12:child-pr-created-while-held:%s' % h,
                    'PR #%d is held (%s) but job %s created integration '
                    'PRs %s' % (pid, h, rec['job'],
                                [k['id'] for k in kids]), {})
            if rec['prs_after'].get(pid) == 'MERGED' and \
                    rec['prs_before'].get(pid) == 'OPEN':
                queued = any(r.startswith('q/w/%d/' % pid)
                             for r in before)
                raise Violation(
                    'C12', 'C12:merged-while-held:%s%s' % (
                        h, ':was-already-queued' if queued else ''),
                    'PR #%d is held (%s) but job %s merged it%s' % (
                        pid, h, rec['job'],
                        ' (the hold was added after the PR had entered the '
                        'queue; the queue merge does not look at comments)'
                        if queued else ''), {})
            if h == 'foreign':
                said = [c for c in w.comments(pid) if c['by'] == ROBOT]
                if said:
                    raise Violation(
                        'C12', 'C12:comment-on-foreign-pr',
                        'PR #%d (%s -> %s) is not handled by Bert-E but '
                        'got the comment %r' % (
                            pid, src, p['dst'],
                            msg_title(said[0]['text'])), {})

    def check_op(self, w, op, recs):
        # anything but a hold comment makes the PR "dirty" for the
        # resume-after-lift clause
        if op['op'] == 'comment':
            pr = ops.user_pr(w, op.get('p'))
            if pr is not None:
                kws = addressed_keywords(w, op['text'])
                if not kws or any(k != 'wait' and not k.startswith(
                        'after_pull_request=') for k in kws):
                    if op['text'].strip().startswith(('@' + ROBOT, '/')):
                        self.dirty.add(pr.id)
        if op['op'] in ('decline', 'commit'):
            pr = ops.user_pr(w, op.get('p'))
            if pr is not None and op['op'] == 'decline':
                self.dirty.add(pr.id)

    def final(self, w, rng, replay=False):
        """Lift every hold, drive to quiescence: held PRs that had no other
        obstacle must now be merged."""
        extra = []
        if replay:
            return extra
        op = {'op': 'lift_and_settle', 'dt': 1}
        getattr(w, 'final_sink', extra).append(op)
        self.apply(w, op)
        return extra

    def apply(self, w, op):
        if op['op'] != 'lift_and_settle':
            return ops.apply_op(w, op)
        w.stats['ops'] += 1
        held = []
        for p in w.pr_table():
            if p['author'] == ROBOT or p['state'] != 'OPEN':
                continue
            h = hold_of(w, p, w.pr_states())
            if h in ('wait', 'dep-open', 'dep-declined', 'dep-unknown',
                     'unspecified'):
                if p['id'] not in self.dirty and h != 'unspecified' and \
                        p['dst'] in w.heads() and p['src'] in w.heads():
                    held.append(p['id'])
                # lift: delete every hold comment
                keep = []
                for c in w.mock.Comment.items:
                    if c.pull_request_id == p['id'] and \
                            c.user['username'] != ROBOT and any(
                                k == 'wait' or
                                k.startswith('after_pull_request')
                                for k in addressed_keywords(
                                    w, c.content['raw'])):
                        continue
                    keep.append(c)
                w.mock.Comment.items[:] = keep
                w.events.append({'k': 'pr', 'id': p['id'], 'why': 'lifted'})
        w.on_job_done = lambda rec: self.check_job(w, rec)
        recs, ok = ops.settle(w, 14)
        w.on_job_done = None
        states = w.pr_states()
        for pid in held:
            if states.get(pid) == 'MERGED':
                w.probe('resumed-after-lift')
                continue
            last = [r for r in recs if r['job'] == 'pr:%d' % pid]
            raise Violation(
                'C12', 'C12:not-resumed-after-lift',
                'PR #%d had no obstacle but its hold; after the hold was '
                'lifted and every build went green it is still %s (last '
                'statuses %s)' % (pid, states.get(pid),
                                  [r['status'] for r in last][-4:]),
                {'statuses': [(r['job'], r['status']) for r in recs][-16:]})
        w.step_digest(op, [])
        return []

    def nontrivial(self, w):
        return any(k.startswith('held:') for k in w.stats['probes'])
