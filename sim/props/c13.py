"""C13 - the server never loses an event and its worker never dies (E2)."""
import logging
import os
import random
import shutil
from types import SimpleNamespace

from ..core import Violation, HarnessError, derive_seed, digest
from ..e2_threads import Sched, SimQueue, WorkerStop

OUTCOMES = ['return', 'silent', 'template', 'internal', 'jobfailure',
            'valueerror', 'keyerror', 'custom', 'badstr', 'oserror',
            'berte']


class _Env:
    """Per-process harness state (one BertE instance reused across runs)."""
    ready = False


def _setup(scratch):
    if _Env.ready:
        return
    os.makedirs(scratch, exist_ok=True)
    os.environ['HOME'] = scratch
    logging.disable(logging.CRITICAL)
    import yaml
    import bert_e.lib.git as bgit
    import bert_e.git_host.mock as mock
    from bert_e.bert_e import BertE
    from bert_e.settings import setup_settings
    from bert_e import exceptions as exc
    from bert_e.job import PullRequestJob, CommitJob, APIJob

    n = [0]

    def fake_mkdtemp(*a, **k):
        n[0] += 1
        d = os.path.join(scratch, 't%d' % n[0])
        os.makedirs(d, exist_ok=True)
        return d
    bgit.mkdtemp = fake_mkdtemp
    mock.Repository.repos[('o', 's')] = SimpleNamespace(
        tmp_directory=os.path.join(scratch, 'norepo'))
    path = os.path.join(scratch, 'settings.yml')
    with open(path, 'w') as f:
        yaml.safe_dump({
            'repository_owner': 'o', 'repository_slug': 's',
            'repository_host': 'mock', 'robot': 'robot',
            'robot_email': 'r@sim', 'admins': ['root'],
            'pull_request_base_url': 'https://h/{pr_id}',
            'commit_base_url': 'https://h/{commit_id}'}, f)
    settings = setup_settings(path)
    settings['robot_password'] = 'pw'
    settings['backtrace'] = True
    settings['quiet'] = True

    class HarnessBertE(BertE):
        pass

    class Custom(Exception):
        pass

    class BadStr(Exception):
        def __str__(self):
            raise RuntimeError('broken __str__')

    def stub(job):
        _Env.on_start(job)
        o = job.sim_outcome
        if o == 'return':
            return
        if o == 'silent':
            raise exc.NothingToDo()
        if o == 'template':
            raise exc.BuildFailed.__new__(exc.BuildFailed)
        if o == 'internal':
            raise exc.UnsupportedTokenType('x')
        if o == 'jobfailure':
            raise exc.JobFailure('refused')
        if o == 'valueerror':
            raise ValueError('boom')
        if o == 'keyerror':
            raise KeyError('k')
        if o == 'custom':
            raise Custom('custom')
        if o == 'badstr':
            raise BadStr()
        if o == 'oserror':
            raise OSError(28, 'No space left on device')
        if o == 'berte':
            raise exc.BertE_Exception('generic')
        raise HarnessError('unknown outcome ' + o)

    from bert_e.jobs.eval_pull_request import EvalPullRequestJob
    for cls in (PullRequestJob, CommitJob, APIJob, EvalPullRequestJob):
        HarnessBertE.set_callback(cls, stub)
    b = HarnessBertE(settings)
    b.git_repo = SimpleNamespace(reset=lambda: None, tmp_directory=None)
    _Env.berte = b
    # the real Flask front door on the same instance (used by a fraction of
    # the runs: requests then enter through the webhook / API views)
    os.environ['WEBHOOK_LOGIN'] = 'hook'
    os.environ['WEBHOOK_PWD'] = 'hookpw'
    os.environ['BERT_E_CLIENT_ID'] = 'cid'
    os.environ['BERT_E_CLIENT_SECRET'] = 'cs'
    from bert_e import server

    def configure_sessions(app):
        from flask_session import Session
        app.config['SESSION_TYPE'] = 'filesystem'
        app.config['SESSION_FILE_DIR'] = os.path.join(scratch, 'sessions')
        Session(app)
    server.configure_sessions = configure_sessions
    b.project_repo = SimpleNamespace(owner='o', slug='s',
                                     full_name='o/s')
    _Env.app = server.setup_server(b)
    _Env.app.config['PROPAGATE_EXCEPTIONS'] = False
    _Env.classes = (PullRequestJob, CommitJob, APIJob)
    _Env.expected_status = {
        'return': '', 'silent': 'NothingToDo', 'template': 'BuildFailed',
        'internal': 'UnsupportedTokenType', 'jobfailure': 'JobFailure',
        'valueerror': 'ValueError', 'keyerror': 'KeyError',
        'custom': 'Custom', 'badstr': 'BadStr', 'oserror': 'OSError',
        'berte': 'BertE_Exception'}
    _Env.ready = True


def gen_config(rng, outcomes):
    nthreads = rng.choice([1, 2, 2, 3, 3])
    keys = rng.choice([1, 2, 2])
    kinds = rng.choice([['pr'], ['pr'], ['commit'], ['pr', 'commit'],
                        ['pr', 'api']])
    threads = []
    for t in range(nthreads):
        evs = []
        for e in range(rng.choice([1, 2, 2])):
            kind = rng.choice(kinds)
            evs.append({'kind': kind, 'key': rng.randrange(keys),
                        'outcome': rng.choice(outcomes)})
        threads.append(evs)
    prios = list(range(nthreads + 1))
    rng.shuffle(prios)
    return {'threads': threads, 'prios': prios,
            'via': 'http' if rng.random() < 0.12 else 'direct'}


def gen_plan(rng, est_steps=140):
    k = rng.choice([0, 1, 1, 2, 2, 3, 4])
    plan = []
    for _ in range(k):
        plan.append({'step': rng.randrange(1, est_steps),
                     'to': rng.randrange(4)})
    return plan


def run_schedule(cfg, plan):
    """One simulated run.  Returns (violation-or-None, info)."""
    b = _Env.berte
    PullRequestJob, CommitJob, APIJob = _Env.classes
    sched = Sched({p['step']: p['to'] for p in plan})
    q = SimQueue(sched)
    b.task_queue = q
    b.tasks_done.clear()
    b.status = {}
    marks = []       # (stamp, what, rid/key)
    stamp = [0]
    jobs = []        # every job object created, in creation order
    started = []     # (stamp, key, job)
    refused = []
    worker_state = {'loops': 0}

    def tick():
        stamp[0] += 1
        return stamp[0]

    def on_start(job):
        started.append((tick(), job.sim_key, job))
    _Env.on_start = on_start

    def make_job(ev):
        if ev['kind'] == 'pr':
            j = PullRequestJob(bert_e=b, pull_request=SimpleNamespace(
                id=ev['key'] + 1))
        elif ev['kind'] == 'commit':
            j = CommitJob(bert_e=b, commit='%040x' % (ev['key'] + 1))
        else:
            j = APIJob(bert_e=b, user='root')
        j.sim_outcome = ev['outcome']
        j.sim_key = (ev['kind'], ev['key'] if ev['kind'] != 'api'
                     else id(j))
        return j

    requests = []

    via_http = cfg.get('via') == 'http'
    outcome_of = {}

    def http_request(ev, req):
        """The request enters through the real Flask views."""
        import base64
        import copy
        import json as _json
        from bert_e.tests import test_server_data as tsd
        auth = 'Basic ' + base64.b64encode(b'hook:hookpw').decode()
        c = _Env.app.test_client()
        if ev['kind'] == 'api':
            with c.session_transaction() as sess:
                sess['user'] = 'root'
                sess['admin'] = True
            r = c.post('/api/pull-requests/%d' % (900 + ev['key']), json={})
            return r.status_code
        if ev['kind'] == 'pr':
            data = copy.deepcopy(tsd.COMMENT_CREATED)
            data['pullrequest']['id'] = ev['key'] + 1
            key = 'pullrequest:comment_created'
        else:
            data = copy.deepcopy(tsd.COMMIT_STATUS_CREATED)
            sha = '%040x' % (ev['key'] + 1)
            data['commit_status']['state'] = 'SUCCESSFUL'
            data['commit_status']['links']['commit']['href'] = \
                'https://h/commit/' + sha
            key = 'repo:commit_status_updated'
        data['repository']['owner'] = {'username': 'o'}
        data['repository']['name'] = 's'
        r = c.post('/bitbucket', data=_json.dumps(data),
                   headers={'X-Event-Key': key, 'Authorization': auth})
        return r.status_code

    def key_of_job(job):
        if isinstance(job, PullRequestJob):
            return ('pr', job.pull_request.id - 1)
        if isinstance(job, CommitJob):
            return ('commit', int(job.commit, 16) - 1)
        return ('api', id(job))

    if via_http:
        # jobs are built by the views: outcomes are attached by key
        def on_start_http(job):
            k = key_of_job(job)
            job.sim_key = k if k[0] != 'api' else ('api', getattr(
                job.settings, 'pr_id', 0) - 900)
            job.sim_outcome = outcome_of.get(
                (job.sim_key[0], job.sim_key[1]), 'silent')
            started.append((tick(), job.sim_key, job))
        _Env.on_start = on_start_http

    def http_thread(evs, tname):
        def body():
            for i, ev in enumerate(evs):
                rid = '%s.%d' % (tname, i)
                if via_http:
                    k = (ev['kind'], ev['key'])
                    outcome_of[k] = ev['outcome']
                    req = {'rid': rid, 'key': k, 'job': None,
                           'arrived': tick(), 'accepted': None}
                    requests.append(req)
                    code = http_request(ev, req)
                    if code >= 400:
                        refused.append((rid, 'http %d' % code))
                        continue
                    req['accepted'] = tick()
                    continue
                job = make_job(ev)
                jobs.append(job)
                req = {'rid': rid, 'key': job.sim_key, 'job': job,
                       'arrived': tick(), 'accepted': None}
                requests.append(req)
                try:
                    b.put_job(job)
                except RuntimeError as err:
                    refused.append((rid, str(err)))
                    continue
                req['accepted'] = tick()
        return body

    def worker():
        while True:
            worker_state['loops'] += 1
            b.process_task()

    for i, evs in enumerate(cfg['threads']):
        sched.add('http%d' % i, cfg['prios'][i], http_thread(evs,
                                                              'http%d' % i))
    wt = sched.add('worker', cfg['prios'][-1], worker)
    sched.run()
    info = {'steps': sched.step, 'fired': len(sched.fired),
            'via_http': via_http,
            'schedule': digest(sched.log), 'refused': len(refused),
            'njobs': len(started),
            'dstate': digest([(m[0], m[1]) for m in sched.log[-1:]])}
    # ---- oracles
    if sched.overrun:
        return Violation('C13', 'C13:no-progress',
                         'the run exceeded the step bound: the worker does '
                         'not drain the queue', {}), info
    if wt.error is not None:
        return Violation(
            'C13', 'C13:worker-died:%s' % type(wt.error).__name__,
            'the worker thread died with %s: %s' % (
                type(wt.error).__name__, _safe(wt.error)),
            {'error': type(wt.error).__name__}), info
    for t in sched.threads:
        if t.error is not None and t is not wt:
            return Violation('C13', 'C13:http-thread-error',
                             'request thread raised %r' % (t.error,), {}), \
                info
    for req in requests:
        if req['accepted'] is None:
            continue
        ok = any(s[1] == req['key'] and s[0] > req['arrived']
                 for s in started)
        if not ok:
            return Violation(
                'C13', 'C13:lost-event:%s' % req['key'][0],
                'request %s for %s was accepted but no evaluation of that '
                'key started after it arrived (arrived at mark %d; '
                'evaluations of the key started at %s)' % (
                    req['rid'], req['key'], req['arrived'],
                    [s[0] for s in started if s[1] == req['key']]),
                {'request': req['rid']}), info
    done = list(b.tasks_done)
    for s in started:
        job = s[2]
        exp = _Env.expected_status[job.sim_outcome]
        if job not in [d for d in done if d is job]:
            return Violation('C13', 'C13:job-not-recorded',
                             'a processed job is missing from tasks_done',
                             {}), info
        if not job.done:
            return Violation('C13', 'C13:job-not-completed',
                             'job %s processed but not marked done' % job,
                             {}), info
        if job.status != exp:
            return Violation(
                'C13', 'C13:wrong-status:%s' % job.sim_outcome,
                'job outcome %s recorded as status %r, expected %r' % (
                    job.sim_outcome, job.status, exp), {}), info
    if 'current job' in b.status:
        return Violation('C13', 'C13:current-job-marker',
                         'current-job marker still set after the queue '
                         'drained', {}), info
    if len(q.queue):
        return Violation('C13', 'C13:queue-not-drained',
                         '%d jobs left in the queue although every thread '
                         'finished' % len(q.queue), {}), info
    return None, info


def _safe(err):
    try:
        return str(err)
    except Exception:
        return '<unprintable>'


class C13Base:
    ID = 'C13'
    ENGINE = 'e2'
    LEVEL = 'exploration'
    RUN_TIMEOUT = 300
    BUDGET = {'quick': 45, 'thorough': 600}
    BATCH = {'quick': 1500, 'thorough': 6000}
    MINIMISE = True
    MIN_RUNS = 300
    MIN_WALL = 120
    RULE = ('one evaluation = one schedule (threads, events, job outcomes, '
            'priorities and pre-emption plan drawn from the seed) of 1-3 '
            'request threads and the worker over the real put_job / '
            'process_task / process / Job.__eq__; distinct = different '
            '(thread, function, line) sequence; non-trivial = at least one '
            'forced pre-emption fired or two threads delivered events')
    REAL = ['bert_e.bert_e.BertE.put_job/process_task/process',
            'bert_e.job (Job classes, __eq__, JobDispatcher.dispatch)',
            'collections.deque membership test']
    STUBBED = ['job handlers (stub raising the drawn outcome)',
               'queue.Queue -> SimQueue (same surface; get() parks with the '
               'scheduler)', 'git repository reset()']
    ASSUMPTIONS = ['C-level operations of deque/dict are atomic under the '
                   'GIL', 'pre-emption points are source lines of '
                   'bert_e/bert_e.py and bert_e/job.py']

    def tasks(self, base_seed, tier):
        i = 0
        while True:
            yield {'property': 'C13', 'tier': tier, 'mode': 'explore',
                   'seed': derive_seed(base_seed, 'C13', 'e2', i),
                   'batch': self.BATCH[tier], 'name': 'C13#%d' % i,
                   'hang_s': 280}
            i += 1

    def outcomes(self):
        skip = os.environ.get('VERIF_C13_SKIP', '').split(',')
        return [o for o in OUTCOMES if o not in skip]

    def run(self, task):
        _setup(task['scratch'])
        if task.get('mode') == 'replay':
            cfg = task['config']
            v, info = run_schedule(cfg, task['ops'])
            return {'property': 'C13', 'seed': task['seed'], 'config': cfg,
                    'ops': task['ops'], 'runs': 1,
                    'violations': [v.as_dict()] if v else [],
                    'stats': {}, 'trace_digest': info['schedule']}
        rng0 = random.Random(task['seed'])
        schedules = set()
        nontrivial = set()
        dstates = set()
        viol = []
        stats = {'jobs': 0, 'ops': 0, 'faults': {}, 'probes': {}}
        samples = []
        out_cfg, out_ops, out_seed = None, None, task['seed']
        runs = 0
        trace = []
        for i in range(task.get('batch', 1000)):
            seed = rng0.randrange(2 ** 48)
            rng = random.Random(seed)
            cfg = gen_config(rng, self.outcomes())
            plan = gen_plan(rng)
            v, info = run_schedule(cfg, plan)
            runs += 1
            trace.append(info['schedule'])
            schedules.add(info['schedule'])
            stats['jobs'] += info['njobs']
            stats['ops'] += info['steps']
            stats['faults']['preempt'] = stats['faults'].get(
                'preempt', 0) + info['fired']
            if info['refused']:
                stats['probes']['put_job-raised-deque-mutated'] = \
                    stats['probes'].get('put_job-raised-deque-mutated',
                                        0) + info['refused']
            if info['fired'] or len(cfg['threads']) > 1:
                nontrivial.add(info['schedule'])
            if info['via_http']:
                stats['probes']['entered-through-flask-views'] = \
                    stats['probes'].get('entered-through-flask-views', 0) + 1
            if len(samples) < 2:
                samples.append({'seed': seed, 'config': cfg, 'plan': plan,
                                'steps': info['steps']})
            if v is not None:
                viol.append(v.as_dict())
                out_cfg, out_ops, out_seed = cfg, plan, seed
                break
        res = {'property': 'C13', 'seed': out_seed, 'config': out_cfg,
               'ops': out_ops or [], 'violations': viol, 'stats': stats,
               'runs': runs, 'states': sorted(schedules)[:0],
               'nontrivial_digests': sorted(nontrivial),
               'nontrivial_runs': len(nontrivial),
               'transitions': [], 'samples': samples,
               'trace_digest': digest(trace), 'sim_seconds': 0,
               'extra': {'distinct_schedules': len(schedules)}}
        if task.get('want_trace'):
            res['trace'] = trace
        return res


from .taps import TapMixin, WorkerTap  # noqa: E402


class C13(TapMixin, C13Base):
    """Two tasks in three explore schedules of the dispatcher with stub
    handlers (E2); the third runs real jobs through the real process_task
    on real repositories (E1 tap)."""
    TAP_CLASS = WorkerTap
