"""C17 - CI results are aggregated soundly and a green verdict is never
downgraded (E4)."""
import copy
import logging
import os
import random
from types import SimpleNamespace

from ..core import Violation, HarnessError, derive_seed, digest
from ..e4_host import SimHost, GH_TRANS, GH_BACK, reference_green

COMMITS = ['a' * 40, 'b' * 40, 'c' * 40, 'd' * 40, 'e' * 40]
STATES = ['SUCCESSFUL', 'FAILED', 'INPROGRESS', 'STOPPED']
EVENTS = ['push', 'pull_request', 'workflow_dispatch']
RUN_STATUS = ['completed', 'in_progress', 'queued', 'pending']
CONCLUSIONS = ['success', 'failure', 'cancelled', None]
BRANCHES = ['w/5.1/bugfix/x', 'q/5.1']


class _Env:
    ready = False


def _setup():
    if _Env.ready:
        return
    logging.disable(logging.CRITICAL)
    import bert_e.git_host.base as base
    import bert_e.git_host.github as gh
    import bert_e.git_host.bitbucket as bb
    import bert_e.server.webhook as webhook
    from bert_e.git_host.cache import BUILD_STATUS_CACHE
    clock = SimpleNamespace(t=1600000000.0)

    class TimeShim:
        @staticmethod
        def sleep(n):
            clock.t += n

        @staticmethod
        def time():
            return clock.t
    base.time = TimeShim
    gh.time = TimeShim
    _Env.clock = clock
    _Env.gh, _Env.bb, _Env.webhook = gh, bb, webhook
    _Env.cache = BUILD_STATUS_CACHE
    _Env.ready = True


def gen_runs(rng, commit, host, n0=0):
    runs = []
    for i in range(rng.choice([1, 2, 2, 3, 3, 4])):
        status = rng.choice(RUN_STATUS + ['completed'] * 3)
        concl = rng.choice(CONCLUSIONS[:3]) if status == 'completed' \
            else None
        if rng.random() < 0.05:
            concl = rng.choice(CONCLUSIONS)
        runs.append([rng.choice(BRANCHES), rng.choice([1, 2]),
                     rng.choice(EVENTS + ['push', 'pull_request']), status,
                     concl])
    return runs


def gen_history(rng, kind):
    keys = ['pre-merge', 'github_actions'] if kind == 'github' \
        else ['pre-merge', 'nightly']
    cfg = {'kind': kind, 'keys': keys,
           'sizes': {k: rng.choice([1, 2, 3, 1000]) for k in keys},
           'etag': rng.random() < 0.7}
    ops = []
    if rng.random() < 0.4:
        # a "green, then red" story on one commit with noise in between
        c = rng.choice([0, 1])
        k = rng.choice(keys)
        others = [x for x in keys if x != k]

        def make(state):
            if k == 'github_actions':
                concl = 'success' if state == 'SUCCESSFUL' else 'failure'
                return {'op': 'runs', 'c': c, 'runs': [
                    [BRANCHES[0], 1, 'push', 'completed', concl]]}
            return {'op': 'set', 'c': c, 'key': k, 'state': state}
        if k == 'github_actions' and rng.random() < 0.5:
            # the webhook of the still running build is being handled (its
            # own request to the host in flight) while the build ends green
            # and another thread polls
            ops.append({'op': 'runs', 'c': c, 'runs': [
                [BRANCHES[0], 1, 'push', 'in_progress', None]]})
            ops.append({'op': 'overlap', 'i': 0, 'during': [
                make('SUCCESSFUL'), {'op': 'poll', 'c': c, 'key': k}]})
        elif k != 'github_actions' and rng.random() < 0.4:
            # the build first fails (Bert-E is told), a re-run succeeds
            # (Bert-E is told by webhook only, nobody polls meanwhile)
            ops.append(make(rng.choice(['FAILED', 'FAILED', 'INPROGRESS'])))
            ops.append({'op': 'deliver', 'i': 0})
            ops.append(make('SUCCESSFUL'))
            ops.append({'op': 'deliver', 'i': 0})
        else:
            ops.append(make('SUCCESSFUL'))
            ops.append(rng.choice([{'op': 'poll', 'c': c, 'key': k},
                                   {'op': 'deliver', 'i': 0}]))
        ops.append(make(rng.choice(['FAILED', 'FAILED', 'INPROGRESS'])))
        for i in range(rng.randint(0, 4)):
            ops.append(rng.choice([
                {'op': 'poll', 'c': c, 'key': rng.choice(others)},
                {'op': 'poll', 'c': rng.choice([2, 3, 4]), 'key': k},
                {'op': 'deliver', 'i': rng.randrange(3)},
                {'op': 'resize', 'key': k, 'n': rng.choice([1, 2, 3])},
                {'op': 'dup', 'i': 0},
                {'op': 'set', 'c': c, 'key': rng.choice(others),
                 'state': rng.choice(STATES)}
                if 'github_actions' not in others else
                {'op': 'poll', 'c': c, 'key': rng.choice(others)}]))
        ops.append({'op': 'poll', 'c': c, 'key': k})
        return cfg, ops
    for i in range(rng.randint(3, 9)):
        r = rng.random()
        c = rng.choice([0, 0, 1, 1, 2, 3, 4])
        k = rng.choice(keys)
        if r < 0.22:
            if k == 'github_actions':
                ops.append({'op': 'runs', 'c': c,
                            'runs': gen_runs(rng, c, None)})
            else:
                ops.append({'op': 'set', 'c': c, 'key': k,
                            'state': rng.choice(STATES + ['SUCCESSFUL'])})
        elif r < 0.40:
            ops.append({'op': 'deliver', 'i': rng.randrange(6)})
        elif r < 0.45:
            during = []
            if k == 'github_actions':
                during.append({'op': 'runs', 'c': c,
                               'runs': gen_runs(rng, c, None)})
            else:
                during.append({'op': 'set', 'c': c, 'key': k,
                               'state': rng.choice(STATES + ['SUCCESSFUL'])})
            during.append({'op': 'poll', 'c': c, 'key': k})
            ops.append({'op': 'overlap', 'i': rng.randrange(6),
                        'during': during})
        elif r < 0.80:
            ops.append({'op': 'poll', 'c': c, 'key': k})
        elif r < 0.85:
            ops.append({'op': 'resize', 'key': k,
                        'n': rng.choice([1, 2, 3])})
        elif r < 0.90:
            ops.append({'op': rng.choice(['dup', 'drop']),
                        'i': rng.randrange(6)})
        else:
            ops.append({'op': 'fault', 'kind': rng.choice(
                ['code', 'code', 'code', 'timeout', 'malformed',
                 'connreset']),
                'code': rng.choice([404, 429, 500, 502]),
                'n': rng.choice([1, 1, 2])})
    return cfg, ops


class History:
    def __init__(self, cfg):
        _setup()
        self.cfg = cfg
        self.kind = cfg['kind']
        self.keys = cfg['keys']
        self.host = SimHost()
        self.host.use_etag = cfg.get('etag', True)
        cache = _Env.cache
        cache.clear()
        for k, n in cfg['sizes'].items():
            cache[k].size = n
        self.sizes = dict(cfg['sizes'])
        gh, bb = _Env.gh, _Env.bb
        if self.kind == 'github':
            self.client = gh.Client('robot', 'gh-password', 'r@sim',
                                    base_url='https://api.github.sim')
            self.client.session.mount('https://', self.host)
            self.repo = gh.Repository(client=self.client,
                                      **self.host.gh_repo())
        else:
            self.client = bb.Client('robot', 'bb-password', 'r@sim')
            self.client.mount('https://', self.host)
            self.repo = bb.Repository(self.client, owner='o', repo_slug='s')
        self.berte = SimpleNamespace(client=self.client, settings={},
                                     project_repo=self.repo, git_repo=None)
        self.pending = []
        self.nrun = 0
        # reference bookkeeping
        self.certain_green = set()   # green seen and continuously retained
        self.maybe_green = set()
        self.log = []            # touch log: (key, commit, definite?)
        self.min_size = {}       # (key, commit) -> min size since last touch
        self.stats = {'faults': {}, 'probes': {}}
        self.trace = []

    def probe(self, name):
        self.stats['probes'][name] = self.stats['probes'].get(name, 0) + 1

    # -- host truth
    def host_current(self, key, commit):
        if self.kind == 'github':
            if key == 'github_actions':
                runs = self.host.gh_runs.get(commit, [])
                obj = _Env.gh.AggregatedWorkflowRuns(
                    _validate=False, total_count=len(runs),
                    workflow_runs=[dict(r) for r in runs])
                return obj.state
            st = self.host.gh_status.get(commit, {}).get(key)
            return GH_BACK[st] if st else 'NOTSTARTED'
        return self.host.bb_status.get((commit, key), 'NOTSTARTED')

    # -- LRU reference (conservative)
    def touch(self, key, commit, definite):
        self.log.append((key, commit, definite))
        for (k, c) in list(self.min_size):
            if k == key:
                self.min_size[(k, c)] = min(self.min_size[(k, c)],
                                            self.sizes[key])
        if definite:
            self.min_size[(key, commit)] = self.sizes[key]
        self.expire_greens(key)

    def expire_greens(self, key):
        # a green verdict must be kept only while the entry was
        # *continuously* certain to be in the cache since it was seen
        for (k, c) in list(self.certain_green):
            if k == key and not self.certainly_retained(k, c):
                self.certain_green.discard((k, c))

    def certainly_retained(self, key, commit):
        last = None
        for i in range(len(self.log) - 1, -1, -1):
            if self.log[i] == (key, commit, True):
                last = i
                break
        if last is None:
            return False
        others = {c for (k, c, d) in self.log[last + 1:]
                  if k == key and c != commit}
        size = min(self.min_size.get((key, commit), self.sizes[key]),
                   self.sizes[key])
        return len(others) < size

    # -- ops
    def apply(self, op):
        kind = op['op']
        fn = getattr(self, 'op_' + kind)
        res = fn(op)
        self.trace.append(digest([op, res, sorted(self.certain_green)]))
        return res

    def op_set(self, op):
        c, key, state = COMMITS[op['c']], op['key'], op['state']
        if self.kind == 'github':
            self.host.gh_status.setdefault(c, {})[key] = GH_TRANS[state]
            self.pending.append({'t': 'status', 'json': {
                'sha': c, 'state': GH_TRANS[state], 'context': key,
                'description': 'sim', 'target_url': 'https://ci.sim/x'}})
        else:
            self.host.bb_status[(c, key)] = state
            # Bitbucket tells about a status with a "created" or an
            # "updated" event (re-created statuses, re-sent events)
            self.nbb = getattr(self, 'nbb', 0) + 1
            self.pending.append({'t': 'bb', 'bbkind': (
                'commit_status_created' if (self.nbb + op['c']) % 2
                else 'commit_status_updated'),
                'json': {'commit_status': {
                'state': state, 'key': key, 'url': 'https://ci.sim/x',
                'description': 'sim',
                'links': {'commit': {'href': 'https://h/commit/' + c}}}}})

    def op_runs(self, op):
        if self.kind != 'github':
            return
        c = COMMITS[op['c']]
        runs = []
        for (branch, wf, event, status, concl) in op['runs']:
            self.nrun += 1
            runs.append(self.host.make_run(self.nrun, c, branch, wf, event,
                                           status, concl))
        self.host.gh_runs[c] = runs
        self.pending.append({'t': 'check_suite', 'json': {
            'action': 'completed',
            'check_suite': {'id': self.nrun, 'head_sha': c,
                            'head_branch': op['runs'][0][0],
                            'status': 'completed', 'conclusion': 'success'},
            'repository': self.host.gh_repo()}})

    def op_dup(self, op):
        if self.pending:
            self.pending.append(copy.deepcopy(
                self.pending[op['i'] % len(self.pending)]))
            self.stats['faults']['dup'] = self.stats['faults'].get(
                'dup', 0) + 1

    def op_drop(self, op):
        if self.pending:
            self.pending.pop(op['i'] % len(self.pending))
            self.stats['faults']['drop'] = self.stats['faults'].get(
                'drop', 0) + 1

    def op_resize(self, op):
        if op['key'] not in self.keys:
            return
        _Env.cache[op['key']].size = op['n']
        self.sizes[op['key']] = op['n']
        for (k, c) in list(self.min_size):
            if k == op['key']:
                self.min_size[(k, c)] = min(self.min_size[(k, c)], op['n'])
        self.expire_greens(op['key'])
        self.stats['faults']['cache_size'] = self.stats['faults'].get(
            'cache_size', 0) + 1

    def op_fault(self, op):
        if op['kind'] == 'code':
            self.host.fault = ('code', op['code'])
        else:
            self.host.fault = (op['kind'],)
        self.fault_repeat = op.get('n', 1)
        if self.fault_repeat > 1:
            # persist for the retry of BertESession too
            orig_send = self.host.send
            left = [self.fault_repeat - 1]
            fault = self.host.fault

            def send(request, **kw):
                if self.host.fault is None and left[0] > 0:
                    left[0] -= 1
                    self.host.fault = fault
                return orig_send(request, **kw)
            self.host.send = send

    def served_runs_check(self, served):
        """Oracle A on every runs document the host served in this op."""
        for runs in served:
            obj = _Env.gh.AggregatedWorkflowRuns(
                _validate=False, total_count=len(runs),
                workflow_runs=[dict(r) for r in runs])
            state = obj.state
            self.probe('aggregation-evaluated')
            if state == 'SUCCESSFUL':
                self.probe('aggregation-green')
                if not reference_green(runs):
                    raise Violation(
                        'C17', 'C17:aggregation-green-without-green-branch',
                        'workflow runs %s are aggregated to SUCCESSFUL '
                        'although on no head branch every considered '
                        'workflow concluded with success' % (
                            [(r['head_branch'], r['workflow_id'],
                              r['event'], r['status'], r['conclusion'])
                             for r in runs],), {})
            if not runs and state == 'SUCCESSFUL':
                raise Violation('C17', 'C17:green-without-runs',
                                'no run at all yields SUCCESSFUL', {})

    def _with_served(self, fn):
        import threading
        served = []
        orig = self.host.route
        me = threading.current_thread()

        def route(request, url, path):
            status, body, headers = orig(request, url, path)
            if path.endswith('/actions/runs') and status == 200 and \
                    threading.current_thread() is me:
                import json
                served.append(json.loads(body)['workflow_runs'])
            return status, body, headers
        self.host.route = route
        try:
            return fn(), served
        finally:
            self.host.route = orig

    def op_deliver(self, op):
        if not self.pending:
            return
        ev = self.pending.pop(op['i'] % len(self.pending))
        wh = _Env.webhook
        nfired = len(self.host.fired_log)
        told = None
        try:
            if ev['t'] == 'status':
                js = ev['json']
                key, c = js['context'], js['sha']
                told = GH_BACK[js['state']]
                (job, served) = self._with_served(
                    lambda: wh.handle_github_status_event(self.berte, js))
            elif ev['t'] == 'bb':
                cs = ev['json']['commit_status']
                key, c = cs['key'], cs['links']['commit']['href'].split(
                    '/')[-1]
                told = cs['state']
                (job, served) = self._with_served(
                    lambda: wh.handle_bitbucket_repo_event(
                        self.berte, ev.get('bbkind',
                                           'commit_status_updated'),
                        ev['json']))
            else:
                key, c = 'github_actions', ev['json']['check_suite'][
                    'head_sha']
                (job, served) = self._with_served(
                    lambda: wh.handle_github_check_suite_event(
                        self.berte, ev['json']))
                if served:
                    obj = _Env.gh.AggregatedWorkflowRuns(
                        _validate=False, total_count=len(served[-1]),
                        workflow_runs=[dict(r) for r in served[-1]])
                    told = obj.state
        except Violation:
            raise
        except Exception as err:
            if len(self.host.fired_log) == nfired:
                raise Violation(
                    'C17', 'C17:webhook-handler-raised',
                    'the %s webhook handler raised %s: %s without any '
                    'transport fault' % (ev['t'], type(err).__name__, err),
                    {})
            self.probe('webhook-failed-under-fault')
            self.touch(key, c, False)
            return 'exc'
        self.served_runs_check(served)
        self.touch(key, c, True)
        if told == 'SUCCESSFUL':
            self.certain_green.add((key, c))
            self.maybe_green.add((key, c))
        if told == 'INPROGRESS' and job is not None:
            raise Violation('C17', 'C17:job-for-inprogress',
                            'a build-started notification created a job',
                            {})
        return told

    def op_overlap(self, op):
        """A webhook handler whose own request to the host is still in
        flight (the answer was produced, its delivery is delayed) while the
        host changes and another thread of the server polls: the ops of
        op['during'] run in that window.  Strict hand-off: one thread runs
        at a time."""
        import threading
        if not self.pending:
            return
        main = threading.current_thread()
        in_flight, release = threading.Event(), threading.Event()
        state = {'blocked': False}
        orig_send = self.host.send

        def send(request, **kw):
            resp = orig_send(request, **kw)
            if threading.current_thread() is not main and \
                    not state['blocked']:
                state['blocked'] = True
                in_flight.set()
                release.wait(60)
            return resp
        self.host.send = send
        result = {}

        def run():
            try:
                result['res'] = self.op_deliver({'op': 'deliver',
                                                 'i': op['i']})
            except BaseException as err:
                result['exc'] = err
            finally:
                in_flight.set()
        t = threading.Thread(target=run, daemon=True)
        t.start()
        in_flight.wait(60)
        try:
            if state['blocked']:
                self.probe('webhook-overlapped-by-%d-ops' % len(
                    op['during']))
                self.stats['faults']['delayed-response'] = \
                    self.stats['faults'].get('delayed-response', 0) + 1
                for o in op['during']:
                    self.apply(o)
            else:
                self.probe('overlap-without-a-request')
        finally:
            release.set()
            t.join(60)
            self.host.send = orig_send
        if 'exc' in result:
            raise result['exc']
        return result.get('res')

    def op_poll(self, op):
        key = op['key']
        if key not in self.keys:
            return
        c = COMMITS[op['c']]
        nfired = len(self.host.fired_log)
        exc = None
        answer = None
        try:
            answer, served = self._with_served(
                lambda: self.repo.get_build_status(c, key))
        except Violation:
            raise
        except Exception as err:
            exc = err
            served = []
        # side effects on the reference bookkeeping
        if self.kind == 'github':
            for k in self.keys:
                self.touch(k, c, k == key)
                if exc is None and self.host_current(k, c) == 'SUCCESSFUL':
                    self.maybe_green.add((k, c))
        else:
            self.touch(key, c, True)
        fired = self.host.fired_log[nfired:]
        if exc is not None:
            if not fired:
                raise Violation(
                    'C17', 'C17:poll-raised',
                    'get_build_status(%s, %s) raised %s: %s without any '
                    'transport fault' % (c[:6], key, type(exc).__name__,
                                         exc), {})
            self.probe('poll-failed-under-fault')
            return 'exc'
        self.served_runs_check(served)
        current = self.host_current(key, c)
        must_green = (key, c) in self.certain_green and \
            self.certainly_retained_before(key, c)
        allowed = set()
        if must_green:
            allowed = {'SUCCESSFUL'}
            self.probe('poll-must-stay-green')
            if current != 'SUCCESSFUL':
                self.probe('poll-must-stay-green-while-host-is-red')
        elif (key, c) in self.maybe_green:
            allowed = {'SUCCESSFUL', current}
        else:
            allowed = {current}
            self.probe('poll-must-equal-host')
        if any(f[0] == 'code' and f[1] == 404 for f in fired):
            allowed = allowed | {'NOTSTARTED'}
        if answer not in allowed:
            what = 'downgraded' if must_green else 'wrong-answer'
            raise Violation(
                'C17', 'C17:%s:%s:%s' % (what, self.kind, (
                    'actions' if key == 'github_actions' else 'status')),
                'get_build_status(%s, %s) answered %s; allowed %s (host '
                'currently reports %s; Bert-E %s seen it SUCCESSFUL; cache '
                'size %d)' % (c[:6], key, answer, sorted(allowed), current,
                              'has' if (key, c) in self.certain_green
                              else 'has not', self.sizes[key]),
                {'answer': answer, 'allowed': sorted(allowed)})
        if answer == 'SUCCESSFUL':
            self.certain_green.add((key, c))
            self.maybe_green.add((key, c))
        return answer

    def certainly_retained_before(self, key, commit):
        """Retention judged on the log *before* the touches of the current
        poll (the last len(keys) or 1 entries)."""
        n = len(self.keys) if self.kind == 'github' else 1
        saved = self.log
        self.log = self.log[:-n]
        try:
            return self.certainly_retained(key, commit)
        finally:
            self.log = saved


def run_history(cfg, ops):
    h = History(cfg)
    v = None
    try:
        for op in ops:
            h.apply(op)
    except Violation as err:
        v = err
    for k, n in h.host.faults_fired.items():
        h.stats['faults'][k] = h.stats['faults'].get(k, 0) + n
    return v, h


class C17:
    ID = 'C17'
    ENGINE = 'e4'
    LEVEL = 'exploration'
    RUN_TIMEOUT = 300
    BUDGET = {'quick': 40, 'thorough': 600}
    BATCH = {'quick': 1500, 'thorough': 5000}
    MIN_RUNS = 400
    MIN_WALL = 120
    RULE = ('one evaluation = one seeded history (host kind, cache sizes, '
            '3-9 ops: CI status changes, workflow-run lists in seeded order, '
            'webhook deliveries incl. duplicates/drops/reordering, polls, '
            'cache resizes, transport faults); distinct = different '
            'per-step trace; non-trivial = at least one poll had to stay '
            'green or equal the host, or an aggregation was evaluated')
    REAL = ['bert_e.git_host.github (Client, Repository.get_build_status/'
            'get_commit_status, AggregatedStatus, AggregatedWorkflowRuns, '
            'Status, StatusEvent, CheckSuiteEvent)',
            'bert_e.git_host.bitbucket (Client, Repository.get_build_status, '
            'BuildStatus)', 'bert_e.git_host.base.BertESession',
            'bert_e.git_host.cache + bert_e.lib.lru_cache',
            'bert_e.server.webhook status / check-suite / bitbucket handlers',
            'requests (sessions, adapters interface)']
    STUBBED = ['the git host: SimHost transport adapter (sim/e4_host.py)',
               'time.sleep / time.time of the clients',
               'BertE instance (namespace with client/settings/repo)']
    ASSUMPTIONS = ['the LRU reference is conservative: an entry is '
                   'required to be retained only while fewer distinct '
                   'other commits than the (minimum) cache size were '
                   'touched under that key since its last definite touch']

    def tasks(self, base_seed, tier):
        i = 0
        while True:
            yield {'property': 'C17', 'tier': tier, 'mode': 'explore',
                   'seed': derive_seed(base_seed, 'C17', 'e4', i),
                   'batch': self.BATCH[tier], 'name': 'C17#%d' % i,
                   'hang_s': 280}
            i += 1

    def run(self, task):
        _setup()
        if task.get('mode') == 'replay':
            v, h = run_history(task['config'], task['ops'])
            return {'property': 'C17', 'seed': task['seed'],
                    'config': task['config'], 'ops': task['ops'], 'runs': 1,
                    'violations': [v.as_dict()] if v else [],
                    'stats': h.stats, 'trace_digest': digest(h.trace)}
        rng0 = random.Random(task['seed'])
        stats = {'jobs': 0, 'ops': 0, 'faults': {}, 'probes': {}}
        nontrivial = set()
        viol = []
        samples = []
        out = (None, [], task['seed'])
        trace = []
        runs = 0
        for i in range(task.get('batch', 1000)):
            seed = rng0.randrange(2 ** 48)
            rng = random.Random(seed)
            kind = rng.choice(['github', 'github', 'bitbucket'])
            cfg, ops = gen_history(rng, kind)
            v, h = run_history(cfg, ops)
            runs += 1
            stats['ops'] += len(ops)
            for grp in ('faults', 'probes'):
                for k, n in h.stats[grp].items():
                    stats[grp][k] = stats[grp].get(k, 0) + n
            d = digest(h.trace)
            trace.append(d)
            p = h.stats['probes']
            if p.get('poll-must-stay-green') or \
                    p.get('poll-must-equal-host') or \
                    p.get('aggregation-evaluated'):
                nontrivial.add(d)
            if len(samples) < 2:
                samples.append({'seed': seed, 'config': cfg, 'ops': ops})
            if v is not None:
                viol.append(v.as_dict())
                out = (cfg, ops, seed)
                break
        res = {'property': 'C17', 'seed': out[2], 'config': out[0],
               'ops': out[1], 'violations': viol, 'stats': stats,
               'runs': runs, 'states': [], 'transitions': [],
               'nontrivial_digests': sorted(nontrivial),
               'nontrivial_runs': len(nontrivial), 'samples': samples,
               'trace_digest': digest(trace), 'sim_seconds': 0,
               'extra': {}}
        if task.get('want_trace'):
            res['trace'] = trace
        return res
