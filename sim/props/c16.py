"""C16 - the robot's credentials never leak into logs, comments or job
reports.  Git half on E1 (fault enumeration over command indices), API-token
half on E4."""
import base64
import io
import json
import logging
import os
import random
import sys
import tempfile
from urllib.parse import quote, quote_plus

from .. import ops
from ..core import Violation, derive_seed, digest
from ..world import ROBOT, OWNER, SLUG
from .base import E1Prop

PASSWORDS = ['s3cr3t-Sentinel-0987', 'p@ss:w/rd?#&=+%25', "pa'ss\"w$rd`x!;|",
             'пароль-ünï-密码', 'a b\tc{}[]<>', 'xY9+/==', '$(id)&&true',
             '%41%42-percent', 'back\\slash\\n']


def secrets_of(password):
    out = {password, quote_plus(password), quote(password),
           quote(password, safe='')}
    return sorted(s for s in out if len(s) >= 4)


class Capture:
    """fd-level capture of stdout/stderr."""

    def __enter__(self):
        sys.stdout.flush()
        sys.stderr.flush()
        self.files = [tempfile.TemporaryFile(), tempfile.TemporaryFile()]
        self.saved = [os.dup(1), os.dup(2)]
        os.dup2(self.files[0].fileno(), 1)
        os.dup2(self.files[1].fileno(), 2)
        return self

    def __exit__(self, *a):
        sys.stdout.flush()
        sys.stderr.flush()
        os.dup2(self.saved[0], 1)
        os.dup2(self.saved[1], 2)
        os.close(self.saved[0])
        os.close(self.saved[1])
        self.text = []
        for f in self.files:
            f.seek(0)
            self.text.append(f.read().decode('utf-8', 'replace'))
            f.close()


def find_secret(secrets, sinks):
    for name, text in sinks:
        if not text:
            continue
        for s in secrets:
            if s in text:
                i = text.index(s)
                return name, s, text[max(0, i - 80):i + len(s) + 40]
    return None


def exc_chain_text(err):
    out = []
    seen = set()
    while err is not None and id(err) not in seen:
        seen.add(id(err))
        try:
            out.append('%s: %s' % (type(err).__name__, err))
        except Exception:
            pass
        err = err.__cause__ or err.__context__
    return '\n'.join(out)


class C16(E1Prop):
    ID = 'C16'
    LEVEL = 'fault_enumeration'
    ENGINE = 'mixed'
    PROFILE = {'p_queue': 0.7, 'p_stab': 0.2, 'p_hotfix': 0.15,
               'ndev': [1, 2, 2, 3]}
    WEIGHTS = {'open_pr': 6, 'ci': 2, 'ci_green_all': 6, 'deliver': 8,
               'deliver_all': 4, 'api': 2, 'commit': 1, 'comment': 1,
               'wcommit': 0.2, 'restart': 0.3}
    GEN_KW = {'ci_green_bias': 0.9}
    NOPS = (4, 14)
    RUN_TIMEOUT = 900
    BUDGET = {'quick': 80, 'thorough': 900}
    LOG_LEVEL = logging.DEBUG
    EXPECTED_PROBES = ['git-fault-variant', 'url-printed-by-failing-command']
    RULE = ('git half: one evaluation = one seeded history on a repository '
            'whose clone URL carries the password; for sampled jobs every '
            '(thorough) or a seeded subset (quick) of the git command '
            'indices is made to fail / hang while printing the URL, at DEBUG '
            'and INFO; api half: one evaluation = one scripted GitHub/'
            'Bitbucket client session incl. failing responses; every sink '
            'named by the property is searched for the secrets')

    def tasks(self, base_seed, tier):
        i = 0
        while True:
            part = 'api' if i % 4 == 3 else 'git'
            yield {'property': 'C16', 'tier': tier, 'mode': 'explore',
                   'seed': derive_seed(base_seed, 'C16', part, i),
                   'part': part, 'name': 'C16#%d' % i, 'hang_s': 900,
                   'batch': 40}
            i += 1

    def run(self, task):
        part = task.get('part') or (task.get('config') or {}).get('part',
                                                                  'git')
        if part == 'api':
            return self.run_api(task)
        from ..runner import run_e1
        res = run_e1(task, self)
        return res

    # ------------------------------------------------------------------
    # git half
    def gen_config(self, rng, tier):
        self.tier = tier
        cfg = ops.gen_config(rng, self.PROFILE)
        pw = rng.choice(PASSWORDS)
        cfg['robot_password'] = pw
        cfg['cred_url'] = 'https://%s:%s@git.sim/%s/%s.git' % (
            ROBOT, quote_plus(pw), OWNER, SLUG)
        cfg['part'] = 'git'
        cfg['settings']['send_bot_status'] = rng.random() < 0.5
        return cfg

    def begin(self, w, rng):
        super().begin(w, rng)
        self.nprobes = 0
        self.secrets = secrets_of(w.cfg['robot_password'])
        self.tier = getattr(self, 'tier', 'quick')

    def next_op(self, w, rng, step, nsteps):
        op = self.gen.next(w)
        maxp = 3 if self.tier == 'quick' else 8
        if op['op'] in ('deliver', 'api') and self.nprobes < maxp and \
                rng.random() < 0.6:
            self.nprobes += 1
            op = dict(op)
            op['probe'] = {'pick': rng.randrange(10 ** 9),
                           'nmax': 5 if self.tier == 'quick' else 0}
        return op

    def event_of(self, w, op):
        if op['op'] == 'deliver':
            if not w.events:
                return None
            return w.events.pop(op.get('i', 0) % len(w.events))
        return {'k': 'api', 'job': op['job'], 'kwargs': op.get('kwargs')
                or {}, 'json': op.get('json') or {}}

    def apply(self, w, op):
        if 'probe' not in op:
            return ops.apply_op(w, op)
        w.stats['ops'] += 1
        w.clock.advance(op.get('dt', 1))
        ev = self.event_of(w, op)
        if ev is None:
            w.step_digest(op, [])
            return []
        pr = op['probe']

        def clean(w_):
            recs = w_.deliver(dict(ev))
            return recs[0]['ncmd'] if recs else 0
        ncmd = w.fork_variant(clean)
        if 'plans' not in pr:
            r = random.Random(pr['pick'])
            plans = []
            for n in range(ncmd):
                for kind in ('giterr', 'githang'):
                    for level in ('DEBUG', 'INFO'):
                        plans.append({'kind': kind, 'n': n, 'level': level})
            if pr.get('nmax') and len(plans) > pr['nmax']:
                plans = r.sample(plans, pr['nmax'])
            pr['plans'] = plans
            pr['ncmd'] = ncmd
        for i, plan in enumerate(list(pr['plans'])):
            import time
            if getattr(w, 'deadline', None) and i > 0 and \
                    time.time() > w.deadline:
                break
            try:
                hit = w.fork_variant(
                    lambda w_, plan=plan: self.variant(w_, ev, plan))
            except Violation as v:
                pr['plans'] = [plan]
                v.detail['plan'] = plan
                v.detail['event'] = ev
                raise
            w.probe('git-fault-variant')
            w._count_fault(plan['kind'])
            if hit:
                w.probe('url-printed-by-failing-command')
        recs = w.deliver(ev)
        w.step_digest(op, recs)
        return recs

    def sinks_after_job(self, w, rec, cap):
        sinks = [('stdout', cap.text[0]), ('stderr', cap.text[1]),
                 ('job.status', str(rec['status'])),
                 ('job.details', str(rec['details']))]
        for (lvl, name, msg, exc) in rec['logs']:
            sinks.append(('log:%s:%s' % (name, logging.getLevelName(lvl)),
                          msg + '\n' + exc))
        for c in rec['new_comments']:
            sinks.append(('comment on PR #%s' % c['pr'], c['text']))
        try:
            sinks.append(('api jobs', w.berte.get_jobs_as_json()))
        except Exception as err:
            sinks.append(('api jobs error', exc_chain_text(err)))
        for j in list(w.berte.tasks_done):
            try:
                sinks.append(('job as_json', j.as_json()))
            except Exception as err:
                # observed: a finished create-branch job whose branch_from
                # became a branch object cannot be serialised (not C16)
                w.probe('job-as_json-raised(observation)')
                sinks.append(('job as_json error', exc_chain_text(err)))
            sinks.append(('job repr', repr(j) + str(j.details)))
        for h in w.status_history:
            sinks.append(('status report', ' '.join(str(x) for x in h)))
        for dsc in w.status_descriptions:
            sinks.append(('bot status summary', dsc))
        sinks.append(('status page', self.status_page(w)))
        return sinks

    def status_page(self, w):
        try:
            os.environ.setdefault('WEBHOOK_LOGIN', 'hook')
            os.environ.setdefault('WEBHOOK_PWD', 'hookpw')
            os.environ.setdefault('BERT_E_CLIENT_ID', 'cid')
            os.environ.setdefault('BERT_E_CLIENT_SECRET', 'csecret')
            from bert_e import server
            import bert_e.server.session as sess

            def configure(app):
                app.config['SESSION_TYPE'] = 'filesystem'
                app.config['SESSION_FILE_DIR'] = os.path.join(
                    w.scratch, 'sessions')
                from flask_session import Session
                Session(app)
            sess.configure = configure
            server.configure_sessions = configure
            app = server.setup_server(w.berte)
            c = app.test_client()
            out = []
            for url in ('/', '/?output=txt'):
                r = c.get(url)
                out.append(r.get_data(as_text=True))
            return '\n'.join(out)
        except Exception as err:
            return 'STATUS-PAGE-ERROR ' + exc_chain_text(err)

    def variant(self, w, ev, plan):
        logging.getLogger().setLevel(getattr(logging, plan['level']))
        with Capture() as cap:
            recs = w.deliver(dict(ev), plan={'kind': plan['kind'],
                                             'n': plan['n']})
        if not recs:
            return False
        rec = recs[0]
        sinks = []
        for r in recs:
            sinks += self.sinks_after_job(w, r, cap)
        hit = find_secret(self.secrets, sinks)
        if hit:
            sink = hit[0].split(':')[0]
            raise Violation(
                'C16', 'C16:git-credential-leak:%s:%s:%s' % (
                    sink, plan['kind'], plan['level']),
                'the robot password (as %r) shows up in %s after git '
                'command #%d (%s) %s: ...%s...' % (
                    hit[1], hit[0], plan['n'],
                    (rec.get('faulted_cmd') or '?')[:60],
                    'failed' if plan['kind'] == 'giterr' else 'timed out',
                    hit[2]), {'sink': hit[0]})
        # did the failing command print the URL at all?
        return bool(rec.get('faulted_cmd'))

    def check_job(self, w, rec):
        # fault-free jobs must not leak either
        sinks = [('job.details', str(rec['details']))]
        for (lvl, name, msg, exc) in rec['logs']:
            sinks.append(('log:%s' % name, msg + '\n' + exc))
        for c in rec['new_comments']:
            sinks.append(('comment', c['text']))
        hit = find_secret(self.secrets, sinks)
        if hit:
            raise Violation(
                'C16', 'C16:git-credential-leak:%s:nofault' % hit[0].split(
                    ':')[0],
                'the robot password shows up in %s of a fault-free job: '
                '...%s...' % (hit[0], hit[2]), {})

    def nontrivial(self, w):
        return w.stats['probes'].get('git-fault-variant', 0) > 0

    # ------------------------------------------------------------------
    # api half (E4)
    def run_api(self, task):
        from . import c17
        c17._setup()
        logging.disable(logging.NOTSET)
        if task.get('mode') == 'replay':
            v, st = self.api_session(task['config'], task['ops'])
            return {'property': 'C16', 'seed': task['seed'],
                    'config': task['config'], 'ops': task['ops'], 'runs': 1,
                    'violations': [v.as_dict()] if v else [], 'stats': st,
                    'trace_digest': digest(task['ops'])}
        rng0 = random.Random(task['seed'])
        stats = {'jobs': 0, 'ops': 0, 'faults': {}, 'probes': {}}
        nontrivial = set()
        viol = []
        samples = []
        out = (None, [], task['seed'])
        runs = 0
        trace = []
        for i in range(task.get('batch', 40)):
            seed = rng0.randrange(2 ** 48)
            rng = random.Random(seed)
            cfg, oplist = self.gen_api(rng)
            v, st = self.api_session(cfg, oplist)
            runs += 1
            stats['ops'] += len(oplist)
            for grp in ('faults', 'probes'):
                for k, n in st[grp].items():
                    stats[grp][k] = stats[grp].get(k, 0) + n
            d = digest([cfg, oplist])
            trace.append(d)
            nontrivial.add(d)
            if len(samples) < 2:
                samples.append({'seed': seed, 'config': cfg, 'ops': oplist})
            if v is not None:
                viol.append(v.as_dict())
                out = (cfg, oplist, seed)
                break
        res = {'property': 'C16', 'seed': out[2], 'config': out[0],
               'ops': out[1], 'violations': viol, 'stats': stats,
               'runs': runs, 'states': [], 'transitions': [],
               'nontrivial_digests': sorted(nontrivial),
               'nontrivial_runs': len(nontrivial), 'samples': samples,
               'trace_digest': digest(trace), 'sim_seconds': 0, 'extra': {}}
        if task.get('want_trace'):
            res['trace'] = trace
        return res

    def gen_api(self, rng):
        mode = rng.choice(['github-password', 'github-app', 'github-app',
                           'bitbucket'])
        cfg = {'part': 'api', 'mode': mode,
               'password': rng.choice(PASSWORDS),
               'level': rng.choice(['DEBUG', 'INFO'])}
        oplist = []
        for i in range(rng.randint(2, 7)):
            r = rng.random()
            if r < 0.45:
                oplist.append({'op': 'call', 'what': rng.choice(
                    ['status', 'status', 'set_status', 'repo', 'headers',
                     'git_url'])})
            elif r < 0.75:
                oplist.append({'op': 'fault', 'kind': rng.choice(
                    ['code', 'code', 'code', 'timeout', 'malformed',
                     'connreset']),
                    'code': rng.choice([401, 403, 404, 422, 429, 500]),
                    'n': rng.choice([1, 2])})
            elif r < 0.9:
                oplist.append({'op': 'clock', 'dt': rng.choice(
                    [1, 300, 599, 601, 1200])})
            else:
                oplist.append({'op': 'token_fail',
                               'code': rng.choice([401, 403, 500, None])})
        oplist.append({'op': 'call', 'what': 'status'})
        return cfg, oplist

    _KEY = None

    @classmethod
    def private_key(cls):
        if cls._KEY is None:
            from cryptography.hazmat.primitives.asymmetric import rsa
            from cryptography.hazmat.primitives import serialization
            key = rsa.generate_private_key(public_exponent=65537,
                                           key_size=2048)
            cls._KEY = key.private_bytes(
                serialization.Encoding.PEM,
                serialization.PrivateFormat.TraditionalOpenSSL,
                serialization.NoEncryption()).decode()
        return cls._KEY

    def api_session(self, cfg, oplist):
        from . import c17
        from ..e4_host import SimHost
        from ..world import ListHandler
        env = c17._Env
        gh, bb = env.gh, env.bb
        st = {'faults': {}, 'probes': {}}
        host = SimHost()
        pw = cfg['password']
        secrets = set(secrets_of(pw))
        handler = ListHandler()
        root = logging.getLogger()
        old_handlers = list(root.handlers)
        old_level = root.level
        for h in old_handlers:
            root.removeHandler(h)
        root.addHandler(handler)
        root.setLevel(getattr(logging, cfg['level']))
        texts = []
        violation = None
        try:
            with Capture() as cap:
                try:
                    gh.Client._get_installation_token.cache_clear()
                except Exception:
                    pass
                client = repo = None
                try:
                    if cfg['mode'] == 'bitbucket':
                        client = bb.Client(ROBOT, pw, 'r@sim')
                        client.mount('https://', host)
                        repo = bb.Repository(client, owner='o',
                                             repo_slug='s')
                        secrets.add(base64.b64encode(
                            ('%s:%s' % (ROBOT, pw)).encode(
                                'latin1', 'replace')).decode())
                    else:
                        kw = {}
                        if cfg['mode'] == 'github-app':
                            kw = {'app_id': 1234, 'installation_id': 5678,
                                  'private_key': self.private_key()}
                            secrets.add(host.token)
                        # the session must exist before the first token
                        # exchange: mount the adapter on every new session
                        import bert_e.git_host.base as base
                        orig_session = base.BertESession

                        class S(orig_session):
                            def __init__(s, *a, **k):
                                super().__init__(*a, **k)
                                s.mount('https://', host)
                        base.BertESession = S
                        try:
                            client = gh.Client(
                                ROBOT, pw, 'r@sim',
                                base_url='https://api.github.sim', **kw)
                        finally:
                            base.BertESession = orig_session
                        repo = gh.Repository(client=client,
                                             **host.gh_repo())
                except Exception as err:
                    texts.append(('exception', exc_chain_text(err)))
                for op in oplist:
                    try:
                        self.api_op(op, cfg, host, client, repo, env, st)
                    except Exception as err:
                        texts.append(('exception', exc_chain_text(err)))
            for a in host.auth_headers:
                if a.startswith('Bearer ') or a.startswith('token ') or \
                        a.startswith('Basic '):
                    secrets.add(a.split(' ', 1)[1])
            sinks = [('stdout', cap.text[0]), ('stderr', cap.text[1])]
            sinks += texts
            for (lvl, name, msg, exc) in handler.records:
                sinks.append(('log:%s' % name, msg + '\n' + exc))
            secrets = sorted(s for s in secrets if len(s) >= 4)
            hit = find_secret(secrets, sinks)
            st['probes']['api-session'] = 1
            if host.token_requests:
                st['probes']['token-exchange'] = host.token_requests
            for k, n in host.faults_fired.items():
                st['faults'][k] = n
            if hit:
                kind = 'password'
                if cfg['mode'] == 'github-app':
                    kind = 'installation-token' if hit[1] == host.token \
                        else ('jwt' if hit[1].count('.') == 2 else
                              'password')
                violation = Violation(
                    'C16', 'C16:api-credential-leak:%s:%s:%s' % (
                        cfg['mode'], kind, hit[0].split(':')[0]),
                    'a credential of the robot (%s) shows up in %s during a '
                    '%s session: ...%s...' % (kind, hit[0], cfg['mode'],
                                              hit[2][:200]), {})
        finally:
            root.removeHandler(handler)
            for h in old_handlers:
                root.addHandler(h)
            root.setLevel(old_level)
        return violation, st

    def api_op(self, op, cfg, host, client, repo, env, st):
        if op['op'] == 'fault':
            host.fault = ('code', op['code']) if op['kind'] == 'code' \
                else (op['kind'],)
            if op.get('n', 1) > 1:
                fault = host.fault
                left = [op['n'] - 1]
                orig = host.send

                def send(request, **kw):
                    if host.fault is None and left[0] > 0:
                        left[0] -= 1
                        host.fault = fault
                    return orig(request, **kw)
                host.send = send
        elif op['op'] == 'clock':
            env.clock.t += op['dt']
        elif op['op'] == 'token_fail':
            host.token_fail = op['code']
        elif op['op'] == 'call' and repo is not None:
            what = op['what']
            sha = 'a' * 40
            if what == 'status':
                repo.get_build_status(sha, 'pre-merge')
            elif what == 'set_status':
                repo.set_build_status(sha, 'bert-e', 'SUCCESSFUL',
                                      url='https://x', description='d')
            elif what == 'repo' and cfg['mode'] != 'bitbucket':
                env.gh.Repository.get(client, owner='o', repo='s')
            elif what == 'headers' and cfg['mode'] != 'bitbucket':
                client.session.headers.update(client.headers)
            elif what == 'git_url':
                # the clone URL legitimately embeds the password; it must
                # only ever reach git, never a sink (not recorded here)
                repo.git_url
