"""C09 - target cascade, ignored branches and fix versions are computed
exactly (E5 cascade engine)."""
import random

from ..core import Violation, derive_seed, digest
from ..models import Layout
from .. import e5_cascade as E

MAJORS = [4, 5, 10]
MINORS = [0, 1, None]


def gen_history(rng):
    ops = []
    # one history in four lives in a universe with multi-digit minors whose
    # names are prefixes of one another (x.1 / x.10 / x.12)
    minors = [1, 10, 12, None] if rng.random() < 0.25 else MINORS
    ys = [m for m in minors if m is not None]
    for i in range(rng.randint(2, 10)):
        r = rng.random()
        x = rng.choice(MAJORS)
        y = rng.choice(minors)
        if r < 0.30:
            ops.append({'op': 'dev', 'x': x, 'y': y})
        elif r < 0.45:
            ops.append({'op': 'stab', 'x': x, 'y': rng.choice(ys),
                        'mode': rng.choice(['next', 'next', 'next', 'any'])})
        elif r < 0.65:
            ops.append({'op': 'tag', 'x': x, 'y': rng.choice(ys),
                        'z': rng.choice([None, None, 0, 1, 2, 5]),
                        'form': rng.choice(['%s', '%s', 'v%s', '%s-rc1',
                                            '%s_hf2', '%s.0', '%s.1'])})
        elif r < 0.72:
            ops.append({'op': 'drop_stab', 'x': x, 'y': rng.choice(ys)})
        elif r < 0.84:
            ops.append({'op': 'hotfix', 'x': x, 'y': rng.choice(ys),
                        'z': rng.choice([0, 1, 3]),
                        'tag': rng.choice([None, '', '.0', '.0', '.2'])})
        elif r < 0.92:
            ops.append({'op': 'archive', 'x': x, 'y': y})
        else:
            ops.append({'op': 'noise', 'name': rng.choice(
                ['feature/x', 'release/4.3', 'user/a/development/4.3',
                 'development/a.b', 'stabilization/4.3', 'hotfix/foo',
                 'q/4.3', 'w/4.3/bugfix/x'])})
    return ops


class Model:
    def __init__(self):
        self.heads = []
        self.tags = []

    def apply(self, op):
        k = op['op']
        if k == 'dev':
            name = 'development/%d' % op['x'] if op['y'] is None else \
                'development/%d.%d' % (op['x'], op['y'])
            if name not in self.heads:
                self.heads.append(name)
        elif k == 'stab':
            x, y = op['x'], op['y']
            lay = Layout(self.heads, self.tags)
            if (x, y) not in lay.devs and op['mode'] == 'next':
                return      # mostly keep layouts well-formed
            if lay.stabs.get((x, y)) and op['mode'] == 'next':
                return
            if op['mode'] == 'next':
                z = lay.released(x, y) + 1
            else:
                z = random.Random(x * 7 + y).choice([0, 1, 2, 5])
            name = 'stabilization/%d.%d.%d' % (x, y, z)
            if name not in self.heads:
                self.heads.append(name)
        elif k == 'tag':
            x, y = op['x'], op['y']
            lay = Layout(self.heads, self.tags)
            z = op['z'] if op['z'] is not None else lay.released(x, y) + 1
            t = op['form'] % ('%d.%d.%d' % (x, y, z))
            if t not in self.tags:
                self.tags.append(t)
        elif k == 'drop_stab':
            pre = 'stabilization/%d.%d.' % (op['x'], op['y'])
            for h in list(self.heads):
                if h.startswith(pre):
                    self.heads.remove(h)
                    break
        elif k == 'hotfix':
            v = '%d.%d.%d' % (op['x'], op['y'], op['z'])
            name = 'hotfix/' + v
            if name not in self.heads:
                self.heads.append(name)
            if op['tag'] is not None and (v + op['tag']) not in self.tags:
                self.tags.append(v + op['tag'])
        elif k == 'archive':
            name = 'development/%d' % op['x'] if op['y'] is None else \
                'development/%d.%d' % (op['x'], op['y'])
            if name in self.heads:
                self.heads.remove(name)
        elif k == 'noise':
            if op['name'] not in self.heads:
                self.heads.append(op['name'])


def check_state(model, rng, probes):
    """Every destination branch of the model as destination."""
    lay = Layout(model.heads, model.tags)
    dests = sorted(lay.devs.values()) + sorted(
        n for lst in lay.stabs.values() for _, n in lst) + \
        sorted(lay.hotfixes.values())
    reject = E.must_reject(lay)
    for dst in dests:
        repo = E.StubRepo(rng)
        repo.heads = {h: None for h in model.heads}
        repo.tags = list(model.tags)
        res = E.run_cascade(repo, dst)
        probes['cascade-built'] = probes.get('cascade-built', 0) + 1
        if reject:
            probes['ill-formed'] = probes.get('ill-formed', 0) + 1
            if res[0] == 'crashed':
                # not a clean rejection, but the destination is refused
                probes['ill-formed-crash:' + res[1]] = probes.get(
                    'ill-formed-crash:' + res[1], 0) + 1
                continue
            if res[0] != 'rejected':
                return Violation(
                    'C09', 'C09:ill-formed-accepted',
                    'layout %s tags %s is ill-formed (%s) but destination '
                    '%s was accepted with targets %s' % (
                        sorted(model.heads), model.tags, reject, dst,
                        res[1]), {})
            continue
        if res[0] == 'crashed':
            return Violation(
                'C09', 'C09:crash:%s' % res[1],
                'well-formed layout %s tags %s, destination %s: the cascade '
                'computation crashed with %s' % (sorted(model.heads),
                                                 model.tags, dst, res[1]),
                {})
        if res[0] == 'rejected':
            # rejections beyond the three listed cases are not excluded by
            # the statement (e.g. VersionMismatch); count them
            probes['rejected:' + res[1]] = probes.get(
                'rejected:' + res[1], 0) + 1
            continue
        targets = lay.targets(dst)
        if res[1] != targets:
            return Violation(
                'C09', 'C09:wrong-targets',
                'destination %s in %s: merged into %s, expected %s' % (
                    dst, sorted(model.heads), res[1], targets), {})
        ign = E.expected_ignored(lay, dst, targets)
        if sorted(res[2]) != ign:
            return Violation(
                'C09', 'C09:wrong-ignored',
                'destination %s in %s: ignored %s, expected %s' % (
                    dst, sorted(model.heads), sorted(res[2]), ign), {})
        exp = lay.fix_versions(dst)
        got = res[3]
        ok = len(exp) == len(got) and all(
            e is None or e == g for e, g in zip(exp, got))
        # an untargeted stabilization whose micro is not the next patch
        # would be rejected (VersionMismatch) - never reaches here
        if not ok:
            return Violation(
                'C09', 'C09:wrong-fix-versions',
                'destination %s in %s with tags %s: fix versions %s, '
                'expected %s' % (dst, sorted(model.heads), model.tags, got,
                                 exp), {})
        probes['compared'] = probes.get('compared', 0) + 1
        if any('development/' in t and t.count('.') == 0 for t in targets):
            probes['major-only-target'] = probes.get(
                'major-only-target', 0) + 1
    return None


def run_history(ops, order_seed):
    import logging
    logging.disable(logging.CRITICAL)
    model = Model()
    rng = random.Random(order_seed)
    probes = {}
    trace = []
    for op in ops:
        model.apply(op)
        v = check_state(model, rng, probes)
        trace.append(digest([op, sorted(model.heads), sorted(model.tags)]))
        if v:
            return v, probes, trace
    return None, probes, trace


class C09Base:
    ID = 'C09'
    ENGINE = 'e5'
    LEVEL = 'exploration'
    RUN_TIMEOUT = 300
    BUDGET = {'quick': 40, 'thorough': 600}
    BATCH = {'quick': 600, 'thorough': 3000}
    MIN_RUNS = 400
    MIN_WALL = 120
    RULE = ('one evaluation = one seeded release-manager history (create '
            'development/x[.y], cut / drop stabilization, tag releases in '
            'plain / v-prefixed / suffixed / x.y.z.n form, open and tag '
            'hotfix branches, archive versions, ill-formed moves, foreign '
            'branch names); after every op the real BranchCascade is built '
            'for every destination from ref listings in seeded order (and a '
            'seed-dependent PYTHONHASHSEED); distinct = different (op, '
            'layout) step digests')
    REAL = ['bert_e.workflow.gitwaterflow.branches: BranchCascade.build / '
            'add_branch / update_versions / _update_major_versions / '
            'finalize / _set_target_versions / validate, branch_factory and '
            'branch classes']
    STUBBED = ['git: StubRepo lists the model\'s refs and tags in a seeded '
               'order; ancestry questions answer yes (inclusion is C01\'s '
               'business)']
    ASSUMPTIONS = ['reference = DESIGN.md A.1; a hotfix branch without any '
                   'tag of its version has an unspecified fix version; '
                   'rejections other than the three listed ill-formed '
                   'layouts are counted, not judged']

    def tasks(self, base_seed, tier):
        i = 0
        while True:
            yield {'property': 'C09', 'tier': tier, 'mode': 'explore',
                   'seed': derive_seed(base_seed, 'C09', 'e5', i),
                   'batch': self.BATCH[tier], 'name': 'C09#%d' % i,
                   'hang_s': 280}
            i += 1

    def run(self, task):
        if task.get('mode') == 'replay':
            v, probes, trace = run_history(task['ops'],
                                           task['config']['order_seed'])
            return {'property': 'C09', 'seed': task['seed'],
                    'config': task['config'], 'ops': task['ops'], 'runs': 1,
                    'violations': [v.as_dict()] if v else [],
                    'stats': {'probes': probes, 'faults': {}},
                    'trace_digest': digest(trace)}
        rng0 = random.Random(task['seed'])
        stats = {'jobs': 0, 'ops': 0, 'faults': {}, 'probes': {}}
        nontrivial = set()
        viol, samples, traces = [], [], []
        out = (None, [], task['seed'])
        runs = 0
        for i in range(task.get('batch', 500)):
            seed = rng0.randrange(2 ** 48)
            rng = random.Random(seed)
            ops = gen_history(rng)
            cfg = {'order_seed': seed}
            v, probes, trace = run_history(ops, seed)
            runs += 1
            stats['ops'] += len(ops)
            for k, n in probes.items():
                stats['probes'][k] = stats['probes'].get(k, 0) + n
            nontrivial.update(trace)
            traces.append(digest(trace))
            if len(samples) < 2:
                samples.append({'seed': seed, 'ops': ops})
            if v is not None:
                viol.append(v.as_dict())
                out = (cfg, ops, seed)
                break
        res = {'property': 'C09', 'seed': out[2], 'config': out[0],
               'ops': out[1], 'violations': viol, 'stats': stats,
               'runs': runs, 'states': [], 'transitions': [],
               'nontrivial_digests': sorted(nontrivial),
               'nontrivial_runs': runs, 'samples': samples,
               'trace_digest': digest(traces), 'sim_seconds': 0, 'extra': {}}
        if task.get('want_trace'):
            res['trace'] = traces
        return res


from .taps import TapMixin, CascadeTap  # noqa: E402


class C09(TapMixin, C09Base):
    TAP_CLASS = CascadeTap
