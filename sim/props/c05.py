"""C05 - a queue evaluation merges the longest all-green prefix of the queue,
in order (E5: real QueueCollection over an in-memory commit graph).

The statement asks for exhaustive enumeration of a finite input space; this
check *samples* that space through seeded queue histories (see level_note).
"""
import logging
import random

from ..core import Violation, derive_seed, digest
from ..models import Layout, HOTFIX_RE, STAB_RE, DEV_RE
from .. import e5_cascade as E

STATES = ['SUCCESSFUL', 'FAILED', 'INPROGRESS', 'NOTSTARTED', 'STOPPED']
KEY = 'pre-merge'


def gen(rng):
    devs = sorted(rng.sample([(4, 3), (5, 1), (10, 0)],
                             rng.choice([1, 2, 2, 3, 3])))
    heads = ['development/%d.%d' % d for d in devs]
    tags = []
    for d in devs:
        if rng.random() < 0.35:
            heads.append('stabilization/%d.%d.%d' % (d[0], d[1], 1))
            tags.append('%d.%d.0' % d)
    hot = None
    if rng.random() < 0.3:
        hot = '%d.%d.2' % (devs[0][0], max(devs[0][1] - 1, 0))
        if ('development/' + hot.rsplit('.', 1)[0]) not in heads:
            heads.append('hotfix/' + hot)
            tags.append(hot + '.0')
    ids = list(range(1, 9))
    if rng.random() < 0.6:
        rng.shuffle(ids)
    cfg = {'heads': heads, 'tags': tags, 'ids': ids}
    dests = list(heads)
    ops = []
    npr = 0
    for i in range(rng.randint(2, 12)):
        r = rng.random()
        if r < 0.35 and npr < 4:
            npr += 1
            ops.append({'op': 'enter', 'dst': rng.choice(dests)})
        elif r < 0.75:
            ops.append({'op': 'ci', 'pick': rng.randrange(1000),
                        'state': rng.choice(STATES + ['SUCCESSFUL'] * 3),
                        'stale': rng.random() < 0.1})
        elif r < 0.95:
            ops.append({'op': 'evaluate', 'force': rng.random() < 0.1,
                        'order': rng.randrange(10 ** 6)})
        else:
            ops.append({'op': 'ci_all', 'state': 'SUCCESSFUL'})
    ops.append({'op': 'evaluate', 'force': False,
                'order': rng.randrange(10 ** 6)})
    return cfg, ops


def qversion(lay, name):
    """Queue version string of a destination branch."""
    m = HOTFIX_RE.match(name)
    if m:
        x, y, z = (int(g) for g in m.groups())
        ns = [t[3] if t[3] is not None else 0 for t in lay.tags
              if t[:3] == (x, y, z)]
        return '%d.%d.%d.%d' % (x, y, z, (max(ns) + 1) if ns else -1)
    return name.split('/', 1)[1]


class Sim:
    def __init__(self, cfg):
        logging.disable(logging.CRITICAL)
        self.cfg = cfg
        self.lay = Layout(cfg['heads'], cfg['tags'])
        self.g = E.Graph()
        self.repo = E.StubRepo(None, self.g)
        self.repo.tags = list(cfg['tags'])
        self.status = {}
        self.entry = []          # (pr id, group)
        self.tip = {}            # (pr, version) -> queue commit
        self.targets = {}        # pr -> [dest names]
        self.npr = 0
        self.all_qcommits = []
        self.probes = {}
        self.trace = []
        base = self.g.commit()
        prev = base
        for hf in sorted(self.lay.hotfixes.values()):
            self.repo.heads[hf] = self.g.commit(base)
        for k in sorted(self.lay.devs, key=self.lay.dev_key):
            st = self.lay.stabs.get(k)
            if st:
                prev = self.g.commit(prev)
                self.repo.heads[st[0][1]] = prev
            prev = self.g.commit(prev)
            self.repo.heads[self.lay.devs[k]] = prev

    def probe(self, n):
        self.probes[n] = self.probes.get(n, 0) + 1

    # -- the model of add_to_queue (only ancestry matters)
    def enter(self, dst):
        heads = self.repo.heads
        if dst not in heads:
            return
        targets = self.lay.targets(dst)
        self.npr += 1
        # ids are given at PR creation, not at queue entry: any order
        ids = self.cfg.get('ids') or list(range(1, 20))
        pr = ids[(self.npr - 1) % len(ids)]
        if pr in self.targets:
            pr = max(self.targets) + 1
        src = 'bugfix/TEST-%d' % pr
        self.targets[pr] = targets
        group = 'hotfix:' + dst if dst.startswith('hotfix/') else 'main'
        w_prev = None
        q_prev = None
        for i, t in enumerate(targets):
            v = qversion(self.lay, t)
            qname = 'q/' + v
            if qname not in heads:
                heads[qname] = heads[t]
            # integration commit: on top of the destination (and of the
            # previous integration commit)
            w = self.g.commit(heads[t], w_prev)
            if i == 0 and heads[qname] == heads[t]:
                qc = w                          # fast-forward
            else:
                qc = self.g.commit(heads[qname], w, q_prev)
            heads[qname] = qc
            heads['q/w/%d/%s/%s' % (pr, v, src)] = qc
            self.tip[(pr, v)] = qc
            self.all_qcommits.append(qc)
            w_prev, q_prev = w, qc
        self.entry.append((pr, group))
        self.probe('pr-entered:' + ('hotfix' if group != 'main' else (
            'stab' if dst.startswith('stabilization/') else 'dev')))

    def queued(self):
        out = []
        for (pr, group) in self.entry:
            if any(h.startswith('q/w/%d/' % pr) for h in self.repo.heads):
                out.append((pr, group))
        return out

    # -- reference (DESIGN.md A.4)
    def reference(self, force):
        moves = {}
        selected = []
        groups = {}
        for pr, grp in self.queued():
            groups.setdefault(grp, []).append(pr)
        for grp, order in groups.items():
            best = 0
            for k in range(len(order), 0, -1):
                prefix = order[:k]
                ok = True
                newest = {}
                for p in prefix:
                    for t in self.targets[p]:
                        newest[t] = p
                for t, p in newest.items():
                    v = qversion(self.lay, t)
                    if self.status.get(self.tip[(p, v)]) != 'SUCCESSFUL':
                        ok = False
                if ok or force:
                    best = k
                    break
            prefix = order[:best]
            selected += prefix
            for p in prefix:
                for t in self.targets[p]:
                    moves[t] = self.tip[(p, qversion(self.lay, t))]
        return sorted(selected), moves

    # -- the real thing
    def evaluate(self, force, order_seed):
        from bert_e.workflow.gitwaterflow.branches import (
            BranchCascade, QueueCollection, QueueBranch,
            QueueIntegrationBranch)
        from bert_e import exceptions as exc
        self.repo.rng = random.Random(order_seed)
        bbrepo = type('BB', (), {
            'get_build_status': lambda s, sha, key: self.status.get(
                sha, 'NOTSTARTED')})()
        try:
            cascade = BranchCascade()
            cascade.build(self.repo)
            qc = QueueCollection(bbrepo, KEY, cascade.get_merge_paths(),
                                 force)
            qc.build(self.repo)
            qc.validate()
            prs = list(qc.mergeable_prs)
            mq = qc.mergeable_queues
        except exc.IncoherentQueues as err:
            return {'error': 'IncoherentQueues: %s' % err}
        finally:
            self.repo.rng = None
        moves = {}
        merged_branches = []
        for version, branches in mq.items():
            lst = branches[QueueIntegrationBranch]
            if lst:
                dest = branches[QueueBranch].dst_branch.name
                moves[dest] = self.repo.heads[lst[0].name]
                merged_branches += [b.name for b in lst]
        return {'prs': sorted(prs), 'moves': moves,
                'merged_branches': merged_branches}

    def apply_merge(self, res):
        for dest, sha in res['moves'].items():
            self.repo.heads[dest] = sha
        for b in res['merged_branches']:
            self.repo.heads.pop(b, None)
        # queues whose integration branches are all gone are dropped, as
        # Bert-E's push --prune of the local state does for merged PRs
        for q in [h for h in self.repo.heads if h.startswith('q/') and
                  not h.startswith('q/w/')]:
            v = q[2:]
            if not any(h.startswith('q/w/') and h.split('/')[3] == v
                       for h in self.repo.heads):
                # q/v now equals its destination (everything merged)
                pass


def classify(sim, op, res, want_prs):
    """A specific, history-independent signature of a disagreement."""
    if op['force']:
        return 'C05:selection-differs:force'
    order = [p for p, g in sim.queued()]
    for dest, sha in sorted(res['moves'].items()):
        if sim.status.get(sha) == 'SUCCESSFUL':
            continue
        v = qversion(sim.lay, dest)
        owner = [p for p in order if sim.tip.get((p, v)) == sha]
        later_green = False
        if owner:
            for p in order[order.index(owner[0]) + 1:]:
                t = sim.tip.get((p, v))
                if t and sim.status.get(t) == 'SUCCESSFUL':
                    later_green = True
        return 'C05:unsound-move:%s:%s' % (
            dest.split('/')[0],
            'green-only-on-a-later-pr' if later_green else 'never-green')
    if len(res['prs']) < len(want_prs):
        return 'C05:not-the-longest-green-prefix'
    return 'C05:selection-differs:other'


def run_history(cfg, ops):
    sim = Sim(cfg)
    for op in ops:
        k = op['op']
        if k == 'enter':
            sim.enter(op['dst'])
        elif k == 'ci':
            pool = sim.all_qcommits if op['stale'] else [
                sim.repo.heads[h] for h in sorted(sim.repo.heads)
                if h.startswith('q/w/')]
            if pool:
                sim.status[pool[op['pick'] % len(pool)]] = op['state']
        elif k == 'ci_all':
            for h in sim.repo.heads:
                if h.startswith('q/w/'):
                    sim.status[sim.repo.heads[h]] = op['state']
        elif k == 'evaluate':
            if not sim.queued():
                continue
            want_prs, want_moves = sim.reference(op['force'])
            res = sim.evaluate(op['force'], op['order'])
            sim.trace.append(digest([sorted(sim.repo.heads.items()),
                                     sorted(sim.status.items()),
                                     res.get('prs')]))
            if 'error' in res:
                return Violation(
                    'C05', 'C05:queues-rejected',
                    'queues built by the add-to-queue model are rejected: '
                    '%s' % res['error'][:300], {}), sim
            sim.probe('evaluation')
            if want_prs:
                sim.probe('non-empty-selection')
            if len(want_prs) not in (0, len(sim.queued())):
                sim.probe('proper-prefix-selected')
            if res['prs'] != want_prs or res['moves'] != want_moves:
                names = {v: k for k, v in sim.repo.heads.items()
                         if k.startswith('q/w/')}
                return Violation(
                    'C05', classify(sim, op, res, want_prs),
                    'queue (entry order %s, targets %s, statuses %s): '
                    'Bert-E selects PRs %s and moves %s; the longest '
                    'all-green prefix is %s with moves %s' % (
                        sim.queued(), sim.targets,
                        {names.get(s, s[-4:]): st
                         for s, st in sim.status.items()},
                        res['prs'],
                        {d: names.get(s, s[-4:])
                         for d, s in res['moves'].items()},
                        want_prs,
                        {d: names.get(s, s[-4:])
                         for d, s in want_moves.items()}), {}), sim
            for d, sha in res['moves'].items():
                if not op['force'] and sim.status.get(sha) != 'SUCCESSFUL':
                    return Violation(
                        'C05', 'C05:moved-to-non-green',
                        '%s moved to a commit whose build is %s' % (
                            d, sim.status.get(sha)), {}), sim
            sim.apply_merge(res)
    return None, sim


class C05Base:
    ID = 'C05'
    ENGINE = 'e5'
    LEVEL = 'exploration'
    RUN_TIMEOUT = 300
    BUDGET = {'quick': 40, 'thorough': 600}
    BATCH = {'quick': 400, 'thorough': 2000}
    MIN_RUNS = 400
    MIN_WALL = 120
    RULE = ('one evaluation = one seeded queue history on a cascade of 1-3 '
            'development versions with optional stabilization and hotfix '
            'branches: PRs enter the queue on any destination (<= 4), CI '
            'reports any state on any queue commit incl. superseded ones, '
            'evaluations (normal / force) run the real QueueCollection with '
            'q/* refs listed in seeded order and are applied, more PRs '
            'enter; distinct = different (refs, statuses, selection) '
            'digests')
    REAL = ['bert_e.workflow.gitwaterflow.branches.QueueCollection (build, '
            '_add_branch, finalize, validate, _process, _recursive_lookup, '
            '_extract_pr_ids, _remove_unmergeable)', 'BranchCascade.build / '
            'get_merge_paths', 'QueueBranch / QueueIntegrationBranch']
    STUBBED = ['git: in-memory commit graph (ancestry only) behind a stub '
               'repository', 'add_to_queue: modelled (queue commit parents = '
               'previous queue tip, integration commit, previous version\'s '
               'queue commit)', 'build statuses: a table']
    ASSUMPTIONS = ['sampling, not the exhaustive enumeration the statement '
                   'asks for', 'reference = DESIGN.md A.4']

    def tasks(self, base_seed, tier):
        i = 0
        while True:
            yield {'property': 'C05', 'tier': tier, 'mode': 'explore',
                   'seed': derive_seed(base_seed, 'C05', 'e5', i),
                   'batch': self.BATCH[tier], 'name': 'C05#%d' % i,
                   'hang_s': 280}
            i += 1

    def run(self, task):
        if task.get('mode') == 'replay':
            v, sim = run_history(task['config'], task['ops'])
            es = task.get('engine_state') or {}
            if v is None and es.get('batch_seed') is not None:
                # needs what earlier histories of the same process left
                # behind (one server process evaluates many queues)
                rng0 = random.Random(es['batch_seed'])
                for i in range(es['index']):
                    cfg_i, ops_i = gen(random.Random(
                        rng0.randrange(2 ** 48)))
                    run_history(cfg_i, ops_i)
                v, sim = run_history(task['config'], task['ops'])
            return {'property': 'C05', 'seed': task['seed'],
                    'config': task['config'], 'ops': task['ops'], 'runs': 1,
                    'violations': [v.as_dict()] if v else [],
                    'stats': {'probes': sim.probes, 'faults': {}},
                    'trace_digest': digest(sim.trace)}
        rng0 = random.Random(task['seed'])
        stats = {'jobs': 0, 'ops': 0, 'faults': {}, 'probes': {}}
        nontrivial = set()
        viol, samples, traces = [], [], []
        out = (None, [], task['seed'])
        runs = 0
        for i in range(task.get('batch', 300)):
            seed = rng0.randrange(2 ** 48)
            rng = random.Random(seed)
            cfg, ops = gen(rng)
            v, sim = run_history(cfg, ops)
            runs += 1
            stats['ops'] += len(ops)
            for k, n in sim.probes.items():
                stats['probes'][k] = stats['probes'].get(k, 0) + n
            nontrivial.update(sim.trace)
            traces.append(digest(sim.trace))
            if len(samples) < 2:
                samples.append({'seed': seed, 'config': cfg, 'ops': ops})
            if v is not None:
                viol.append(v.as_dict())
                out = (cfg, ops, seed)
                engine_state = {'batch_seed': task['seed'], 'index': i}
                break
        res = {'property': 'C05', 'seed': out[2], 'config': out[0],
               'ops': out[1], 'violations': viol, 'stats': stats,
               'runs': runs, 'states': [], 'transitions': [],
               'nontrivial_digests': sorted(nontrivial),
               'nontrivial_runs': runs, 'samples': samples,
               'trace_digest': digest(traces), 'sim_seconds': 0, 'extra': {}}
        if viol:
            res['engine_state'] = engine_state
        if task.get('want_trace'):
            res['trace'] = traces
        return res


from .taps import TapMixin, QueueTap  # noqa: E402


class C05(TapMixin, C05Base):
    TAP_CLASS = QueueTap
    # where destinations actually end up is only visible on real queues:
    # two tasks in three are taps
    TAP_SLOTS = (1, 2)
    BUDGET = {'quick': 75, 'thorough': 900}
