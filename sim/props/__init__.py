"""Property registry: id -> (module, class)."""
import importlib

REGISTRY = {
    'C01': ('sim.props.c01', 'C01'),
    'C02': ('sim.props.c02', 'C02'),
    'C03': ('sim.props.c03', 'C03'),
    'C04': ('sim.props.c04', 'C04'),
    'C05': ('sim.props.c05', 'C05'),
    'C06': ('sim.props.c06', 'C06'),
    'C07': ('sim.props.c07', 'C07'),
    'C08': ('sim.props.c08', 'C08'),
    'C09': ('sim.props.c09', 'C09'),
    'C10': ('sim.props.c10', 'C10'),
    'C11': ('sim.props.c11', 'C11'),
    'C12': ('sim.props.c12', 'C12'),
    'C13': ('sim.props.c13', 'C13'),
    'C14': ('sim.props.c14', 'C14'),
    'C15': ('sim.props.c15', 'C15'),
    'C16': ('sim.props.c16', 'C16'),
    'C17': ('sim.props.c17', 'C17'),
    'C19': ('sim.props.c19', 'C19'),
    'C20': ('sim.props.c20', 'C20'),
}


def get(pid):
    mod, cls = REGISTRY[pid]
    return getattr(importlib.import_module(mod), cls)()
