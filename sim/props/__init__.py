"""Property registry: id -> (module, class)."""
import importlib

REGISTRY = {
    'C01': ('sim.props.c01', 'C01'),
}


def get(pid):
    mod, cls = REGISTRY[pid]
    return getattr(importlib.import_module(mod), cls)()
