"""C02 - a changeset lands on all of its target branches or none, even
across crashes; recovery reaches the content of the uninterrupted run."""
from .. import ops
from ..core import Violation
from ..models import layout_from_refs
from ..world import DEST_PREFIXES, ROBOT
from .base import E1Prop
from .c01 import chain_failures

QUEUE_TROUBLE = ('QueueOutOfOrder', 'IncoherentQueues')


def all_or_none(w, where, prop='C02'):
    """Oracle (a): every commit of every user PR's source branch is on all
    of the PR's current target branches or on none."""
    refs = w.refs()
    lay = layout_from_refs(refs)
    src_commits = getattr(w, 'src_commits', {})
    cache = {}
    for p in w.pr_table():
        if p['author'] == ROBOT:
            continue
        targets = lay.targets(p['dst'])
        if not targets or p['dst'] not in refs:
            continue
        targets = [t for t in targets if t in refs]
        if len(targets) < 2:
            continue
        for sha in src_commits.get(p['id'], []):
            if sha not in cache:
                out = w.rgit('branch', '--contains', sha,
                             '--format=%(refname:short)', check=False)
                cache[sha] = set(out.split())
            on = [t for t in targets if t in cache[sha]]
            if on and len(on) != len(targets):
                missing = [t for t in targets if t not in on]
                raise Violation(
                    prop, '%s:partial:%s' % (prop, where.split('#')[0]),
                    'commit %s of PR #%d (%s -> %s) is on %s but not on %s '
                    '[%s]' % (sha[:10], p['id'], p['src'], p['dst'], on,
                              missing, where),
                    {'pr': p['id'], 'commit': sha, 'on': on,
                     'missing': missing, 'where': where})


def dest_trees(w):
    refs = w.refs()
    return {r: w.tree(sha) for r, sha in refs.items()
            if r.startswith(DEST_PREFIXES)}


def settle_with_operator(w, max_jobs=14):
    """Drive to quiescence; the operator issues the documented queue reset
    when a job reports the queues out of order."""
    total = []
    for attempt in range(3):
        recs, ok = ops.settle(w, max_jobs)
        total.extend(recs)
        trouble = [r for r in recs if r['status'] in QUEUE_TROUBLE]
        if not trouble:
            return total, ok
        w.probe('operator-queue-reset')
        r2 = w.deliver({'k': 'api', 'job': 'rebuild_queues', 'kwargs': {},
                        'json': {}})
        total.extend(r2)
        if r2 and r2[0]['status'] != 'JobSuccess':
            r3 = w.deliver({'k': 'api', 'job': 'delete_queues',
                            'kwargs': {}, 'json': {}})
            total.extend(r3)
    recs, ok = ops.settle(w, max_jobs)
    total.extend(recs)
    return total, ok


def ref_class(ref):
    ref = ref.replace('refs/heads/', '').replace('refs/tags/', 'tag:')
    for pre in ('q/w/', 'q/', 'w/', 'tag:', 'development/',
                'stabilization/', 'hotfix/'):
        if ref.startswith(pre):
            return pre.rstrip('/:')
    return 'other'


def is_push_all(cmd):
    return '--all' in cmd or '--mirror' in cmd or 'refs/heads/*' in cmd


def op_class(m):
    if m is None:
        return 'none'
    if m['kind'] == 'host':
        return m['call'].split('.')[-1]
    cmd = m['cmd']
    if is_push_all(cmd):
        return 'push-all'
    names = cmd.replace("'", '').split()[2:]
    names = [n for n in names if not n.startswith('-') and n != 'origin']
    dele = any(n.startswith(':') for n in names)
    classes = sorted(set(ref_class(n.lstrip(':')) for n in names))
    return 'push%s[%s]' % ('-delete' if dele else '', ','.join(classes))


def fault_sig(plan, mut):
    """Specific, history-independent signature of a fault placement."""
    if plan['kind'] == 'reject':
        m = [x for x in mut if x['kind'] == 'push' and x['j'] == plan['push']]
        return 'reject%s:%s:in:%s' % (
            '-persist' if plan.get('persist') else '',
            ref_class(plan['ref']), op_class(m[0] if m else None))
    at = plan['at']
    m = mut[at] if at < len(mut) else None
    return '%s:%s:%s' % (plan['kind'], plan['when'], op_class(m))


def fault_space(mut):
    """Every fault of C02's quantifier for a job whose clean execution
    performed the remote-mutating operations `mut`."""
    faults = []
    n = len(mut)
    for kind in ('kill', 'partition'):
        for k in range(n):
            faults.append({'kind': kind, 'at': k, 'when': 'before'})
        if n:
            faults.append({'kind': kind, 'at': n - 1, 'when': 'after'})
    for m in mut:
        if m['kind'] != 'push':
            continue
        for ref in sorted(m.get('changed', {})):
            if ref.startswith('tag:'):
                full = 'refs/tags/' + ref[4:]
            else:
                full = 'refs/heads/' + ref
            for persist in (False, True):
                faults.append({'kind': 'reject', 'push': m['j'],
                               'ref': full, 'persist': persist})
    return faults


class C02(E1Prop):
    ID = 'C02'
    LEVEL = 'fault_enumeration'
    PROFILE = {'p_queue': 0.75, 'p_stab': 0.3, 'p_hotfix': 0.2,
               'ndev': [2, 2, 3, 3, 3, 4]}
    WEIGHTS = {'open_pr': 6, 'ci': 3, 'ci_green_all': 6, 'deliver': 8,
               'deliver_all': 3, 'api': 0.8, 'commit': 1.5, 'comment': 0.2,
               'wcommit': 0.0, 'restart': 0.1, 'amend': 0.2, 'rebase': 0.2,
               'reset_src': 0.0, 'tag': 0.0, 'delete_src': 0.0,
               'request_changes': 0, 'merge_dst': 0.2}
    GEN_KW = {'ci_green_bias': 0.85,
              'api_jobs': ['rebuild_queues', 'delete_queues', 'force_merge',
                           'eval_pr']}
    NOPS = (6, 16)
    RUN_TIMEOUT = 1500
    BUDGET = {'quick': 80, 'thorough': 1200}
    GRACE = 20
    MIN_RUNS = 60
    EXPECTED_PROBES = ['fault-variant', 'recovered-equal']

    def gen_config(self, rng, tier):
        cfg = ops.gen_config(rng, self.PROFILE)
        self.tier = tier
        return cfg

    def begin(self, w, rng):
        super().begin(w, rng)
        self.rng = rng
        self.nprobes = 0
        # only non-conflicting changes, so that merges commute and the
        # content comparison does not depend on queue order
        orig = self.gen.make

        def make(kind, w_):
            op = orig(kind, w_)
            if op and op.get('kind') in ('shared', 'ver'):
                op['kind'] = 'new'
            return op
        self.gen.make = make

    def next_op(self, w, rng, step, nsteps):
        tier = getattr(self, 'tier', 'quick')
        if step == 0:
            self.script = []
            if rng.random() < 0.5:
                # story: drive one multi-target PR up to the job that lands
                # it, and put the fault probe on that very job
                dests = ops.dest_branches(w.cfg)
                d = rng.choice(dests[:max(1, len(dests) - 1)])
                seq = [{'op': 'open_pr', 'actor': 'alice',
                        'src': 'bugfix/TEST-601', 'dst': d, 'kind': 'new'},
                       {'op': 'eval', 'p': 0},
                       {'op': 'ci_green_all', 'which': ['src', 'w']}]
                if w.use_queue and not w.cfg.get('skip_queue'):
                    seq += [{'op': 'eval', 'p': 0},
                            {'op': 'ci_green_all', 'which': ['q']}]
                seq.append({'op': 'probe', 'i': 10 ** 6, 'last': True,
                            'wipe': rng.random() < 0.3,
                            'nfaults': 6 if tier == 'quick' else 0,
                            'skip_roll': 1.0,
                            'pick': rng.randrange(10 ** 9)})
                for o in seq:
                    o['dt'] = rng.choice([1, 5, 30])
                self.script = seq
                self.nprobes += 1
            elif w.use_queue and rng.random() < 0.25:
                # story: the fault probe goes on the job that puts a
                # multi-target PR *into* the queue (it publishes the master
                # queues one by one, then the queue commits)
                dests = ops.dest_branches(w.cfg)
                d = rng.choice(dests[:max(1, len(dests) - 1)])
                seq = [{'op': 'open_pr', 'actor': 'alice',
                        'src': 'bugfix/TEST-621', 'dst': d, 'kind': 'new'},
                       {'op': 'eval', 'p': 0},
                       {'op': 'ci_green_all', 'which': ['src', 'w']},
                       {'op': 'probe', 'i': 10 ** 6, 'last': True,
                        'wipe': rng.random() < 0.3, 'queueing': True,
                        'nfaults': 8 if tier == 'quick' else 0,
                        'skip_roll': 1.0,
                        'pick': rng.randrange(10 ** 9)}]
                for o in seq:
                    o['dt'] = rng.choice([1, 5, 30])
                self.script = seq
                self.nprobes += 1
            elif w.use_queue and rng.random() < 0.3:
                # story: a PR sits in the queue while an admin creates a
                # newer development branch (new branch pushed, then the
                # queues are rebuilt): the fault probe goes on that job
                dests = ops.dest_branches(w.cfg)
                devs = [d for d in dests if d.startswith('development/')]
                major = max(int(d.split('/')[1].split('.')[0])
                            for d in devs)
                new = 'development/%d.%d' % (major + 1, rng.choice([0, 3]))
                d = rng.choice(dests[:max(1, len(dests) - 1)])
                seq = [{'op': 'open_pr', 'actor': 'alice',
                        'src': 'bugfix/TEST-611', 'dst': d, 'kind': 'new'},
                       {'op': 'eval', 'p': 0},
                       {'op': 'ci_green_all', 'which': ['src', 'w']},
                       {'op': 'eval', 'p': 0},
                       {'op': 'api', 'job': 'create_branch',
                        'kwargs': {'branch': new}, 'queue_only': True},
                       {'op': 'probe', 'i': 10 ** 6, 'last': True,
                        'wipe': rng.random() < 0.3,
                        'nfaults': 6 if tier == 'quick' else 0,
                        'skip_roll': 1.0,
                        'pick': rng.randrange(10 ** 9)}]
                for o in seq:
                    o['dt'] = rng.choice([1, 5, 30])
                self.script = seq
                self.nprobes += 1
        if getattr(self, 'script', None):
            return self.script.pop(0)
        op = self.gen.next(w)
        maxp = 2 if tier == 'quick' else 4
        if op['op'] == 'deliver' and self.nprobes < maxp and \
                rng.random() < 0.5:
            self.nprobes += 1
            op = {'op': 'probe', 'i': op['i'], 'dt': op['dt'],
                  'wipe': rng.random() < 0.3,
                  'nfaults': 6 if tier == 'quick' else 0,
                  'skip_roll': rng.random(),
                  'pick': rng.randrange(10 ** 9)}
        return op

    # ------------------------------------------------------------------
    def apply(self, w, op):
        if op['op'] != 'probe':
            return ops.apply_op(w, op)
        w.stats['ops'] += 1
        w.clock.advance(op.get('dt', 1))
        if not w.events:
            w.step_digest(op, [])
            return []
        if op.get('last'):
            # the story wants the newest event (a green report on a queue
            # tip, or the PR event): that job lands the PR
            ev = w.events.pop()
            w.events = [e for e in w.events if e != ev]
        else:
            ev = w.events.pop(op['i'] % len(w.events))
        if op.get('skip_roll', 1.0) < 0.65:
            # cheap look-ahead: most probes should land on jobs that move a
            # destination branch (that is where all-or-none is decided)
            def peek(w_):
                recs = w_.deliver(dict(ev))
                return bool(recs and any(
                    ref_class(r) in ('development', 'stabilization',
                                     'hotfix')
                    for m in recs[0]['mut'] if m['kind'] == 'push'
                    for r in (m.get('changed') or {})))
            if not w.fork_variant(peek):
                w.probe('probe-skipped-non-merging-job')
                self.nprobes -= 1
                recs = w.deliver(ev)
                w.step_digest(op, recs)
                return recs

        def clean(w_):
            recs = w_.deliver(dict(ev))
            first = recs[0] if recs else None
            total, ok = settle_with_operator(w_)
            return {'mut': first['mut'] if first else [],
                    'status': first['status'] if first else None,
                    'trees': dest_trees(w_), 'quiescent': ok,
                    'njobs': len(recs) + len(total)}
        base = w.fork_variant(clean)
        if 'faults' not in op:
            import random
            space = fault_space(base['mut'])
            r = random.Random(op['pick'])
            if op.get('nfaults') and len(space) > op['nfaults']:
                # faults on the operations that move destination branches
                # first (that is where all-or-none is decided), then a
                # seeded sample of the rest
                mut = base['mut']

                def on_dest(f):
                    if f['kind'] == 'reject':
                        return ref_class(f['ref']) in (
                            'development', 'stabilization', 'hotfix')
                    m = mut[f['at']] if f['at'] < len(mut) else None
                    return bool(m and m['kind'] == 'push' and any(
                        ref_class(x) in ('development', 'stabilization',
                                         'hotfix')
                        for x in (m.get('changed') or {})))
                prio = [f for f in space if on_dest(f)]
                rest = [f for f in space if not on_dest(f)]
                if op.get('queueing'):
                    # crashes between the single pushes of the queueing job
                    prio = [f for f in space if f['kind'] == 'kill']
                    rest = [f for f in space if f['kind'] != 'kill']
                if len(prio) > 8:
                    prio = r.sample(prio, 8)
                k = max(2, op['nfaults'] - len(prio))
                space = prio + (r.sample(rest, k) if len(rest) > k
                                else rest)
            op['faults'] = space
            op['mut_clean'] = [m.get('cmd') or m.get('call')
                               for m in base['mut']]
        w.probe('probed-job')
        if base['mut']:
            w.probe('probed-job-with-mutations')
        for fi, plan in enumerate(list(op['faults'])):
            import time
            if getattr(w, 'deadline', None) and fi > 0 and \
                    time.time() > w.deadline:
                w.probe('probe-truncated-by-wall-budget')
                break
            try:
                res = w.fork_variant(
                    lambda w_: self.variant(w_, ev, plan, op.get('wipe'),
                                            base))
            except Violation as v:
                op['faults'] = [plan]     # minimal fault list for replay
                v.detail['fault'] = plan
                v.detail['event'] = ev
                v.detail['clean_mutations'] = op.get('mut_clean')
                raise
            w.probe('fault-variant')
            for k, n in res['faults'].items():
                w.stats['faults'][k] = w.stats['faults'].get(k, 0) + n
            for k, n in res['probes'].items():
                w.stats['probes'][k] = w.stats['probes'].get(k, 0) + n
            w.stats['jobs'] += res['jobs']
        # the main line continues with the clean execution
        recs = w.deliver(ev)
        w.step_digest(op, recs)
        return recs

    def variant(self, w, ev, plan, wipe, base):
        f0 = dict(w.stats['faults'])
        p0 = dict(w.stats['probes'])
        j0 = w.stats['jobs']
        tag = fault_sig(plan, base['mut'])

        def check(where):
            all_or_none(w, where)
            bad = chain_failures(w, w.refs())
            if bad:
                raise Violation(
                    'C02', 'C02:chain:%s' % where.split('#')[0],
                    '%s not contained in %s [%s]' % (bad[0][0], bad[0][1],
                                                     where),
                    {'where': where})
        w.on_job_done = None
        recs = w.deliver(dict(ev), plan=dict(plan))
        if recs and not recs[0]['fired']:
            w.probe('fault-not-reached')
        check('after-fault:%s' % tag)
        # a fresh Bert-E gets the event again
        w.restart(wipe=bool(wipe), count=False)
        w.on_job_done = lambda rec: check('recovery:%s#%s' % (
            tag, rec['job']))
        w.deliver(dict(ev))
        total, ok = settle_with_operator(w)
        w.on_job_done = None
        check('end:%s' % tag)
        trees = dest_trees(w)
        if base['quiescent'] and not ok:
            raise Violation(
                'C02', 'C02:no-quiescence:%s' % tag,
                'after fault %s the world does not settle within the job '
                'cap although the uninterrupted run does' % (plan,),
                {'statuses': [r['status'] for r in total][-12:]})
        if base['quiescent'] and ok:
            for ref in sorted(set(trees) & set(base['trees'])):
                if trees[ref] != base['trees'][ref]:
                    raise Violation(
                        'C02', 'C02:content-differs:%s' % tag,
                        'after fault %s and recovery, %s has tree %s, the '
                        'uninterrupted run ends with %s' % (
                            plan, ref, trees[ref][:10],
                            base['trees'][ref][:10]),
                        {'ref': ref,
                         'statuses': [r['status'] for r in total][-12:]})
            if set(trees) != set(base['trees']):
                w.probe('recovered-different-branch-set')
            w.probe('recovered-equal')
        faults = {k: v - f0.get(k, 0) for k, v in w.stats['faults'].items()
                  if v - f0.get(k, 0)}
        probes = {k: v - p0.get(k, 0) for k, v in w.stats['probes'].items()
                  if v - p0.get(k, 0)}
        return {'faults': faults, 'probes': probes,
                'jobs': w.stats['jobs'] - j0}

    def check_job(self, w, rec):
        all_or_none(w, 'mainline')
        bad = chain_failures(w, rec['refs_after'])
        if bad and not chain_failures(w, rec['refs_before']):
            raise Violation('C02', 'C02:chain:mainline',
                            '%s not contained in %s after %s' % (
                                bad[0][0], bad[0][1], rec['job']))

    def nontrivial(self, w):
        return w.stats['probes'].get('fault-variant', 0) > 0
