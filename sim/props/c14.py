"""C14 - HTTP entry points enqueue work only for authorised callers (E3).

The real Flask app from setup_server(); every registered API endpoint and
management form, both webhook routes; a reference ACL decides what each
request may do; after every request the status code class and the exact
growth of the task queue are compared with it.  The order of the cells and
the interleaving of the clients (with session churn) are drawn from the seed.
"""
import base64
import collections
import copy
import json
import logging
import os
import random
import re
from queue import Queue
from types import SimpleNamespace

from ..core import Violation, HarnessError, derive_seed, digest
from ..e4_host import SimHost

ADMIN_ENDPOINTS = {'CreateBranch', 'DeleteBranch', 'ForceMergeQueues',
                   'DeleteQueues'}
KNOWN_ENDPOINTS = ADMIN_ENDPOINTS | {'GetJob', 'ListJobs', 'EvalPullRequest',
                                     'RebuildQueues'}
HOOK_USER, HOOK_PW = 'hookuser', 'hook-pw-1'

GOOD_BRANCHES = ['development/4.3', 'development/10.0',
                 'stabilization/5.1.4', 'hotfix/4.2.17']
BAD_BRANCHES = ['development/4', 'development/4.3.1', 'dev/4.3',
                'development/4.3/x', 'xdevelopment/4.3', 'development/4.3x',
                'stabilization/5.1', 'hotfix/4.2', 'feature/foo',
                'development/a.b', ' development/4.3', 'q/4.3',
                'release/4.3', 'development/4.3\nfoo']
GOOD_FROM = [None, '', 'development/4.3', 'abcdef0123', 'ABCDEF']
BAD_FROM = ['development/4', 'feature/x', 'zzzz', 'abc def', '4.3',
            'origin/development/4.3']


class _Env:
    apps = {}


ORG = 'sim.example'
# the identity provider's answers to /api/auth?access_token=<token>
PROFILES = {
    'tok-alice': {'preferred_username': 'Alice',
                  'email': 'alice@' + ORG},
    'tok-root': {'preferred_username': 'Root', 'email': 'root@' + ORG},
    'tok-root-othermail': {'preferred_username': 'root',
                           'email': 'root@%s.evil.net' % ORG},
    'tok-root-nomail': {'preferred_username': 'root'},
    'tok-alice-othermail': {'preferred_username': 'alice',
                            'email': 'alice@elsewhere.org'},
    'tok-nouser': {'email': 'ghost@' + ORG},
}
# session state reached through the login route -> (token, what the
# session must be worth afterwards)
LOGINS = {
    'login-user': ('tok-alice', 'user'),
    'login-admin': ('tok-root', 'admin'),
    'login-refused-admin-othermail': ('tok-root-othermail', 'none'),
    'login-refused-admin-nomail': ('tok-root-nomail', 'none'),
    'login-refused-user-othermail': ('tok-alice-othermail', 'none'),
    'login-refused-nouser': ('tok-nouser', 'none'),
}


def effective(sess):
    """What a session state is worth to the reference ACL."""
    if sess in LOGINS:
        return LOGINS[sess][1]
    return 'none' if sess == 'admin-logged-out' else sess


def make_app(kind, scratch):
    """One real Flask app per host kind, on an inert BertE."""
    if kind in _Env.apps:
        return _Env.apps[kind]
    logging.disable(logging.CRITICAL)
    os.environ['WEBHOOK_LOGIN'] = HOOK_USER
    os.environ['WEBHOOK_PWD'] = HOOK_PW
    os.environ['BERT_E_CLIENT_ID'] = 'cid'
    os.environ['BERT_E_CLIENT_SECRET'] = 'csecret'
    from bert_e import server
    from bert_e.bert_e import BertE
    from bert_e.lib.settings_dict import SettingsDict
    import bert_e.git_host.mock as mock
    import bert_e.git_host.github as gh
    import bert_e.git_host.bitbucket as bb
    import bert_e.server.api.base as apibase

    sessdir = os.path.join(scratch, 'sessions-' + kind)
    os.makedirs(sessdir, exist_ok=True)

    def configure_sessions(app):
        from flask_session import Session
        app.config['SESSION_TYPE'] = 'filesystem'
        app.config['SESSION_FILE_DIR'] = sessdir
        app.config['PERMANENT_SESSION_LIFETIME'] = 3600 * 24
        app.config['SESSION_PERMANENT'] = True
        app.config['SESSION_FILE_THRESHOLD'] = 500
        Session(app)
    server.configure_sessions = configure_sessions
    # bitbucket webhooks build PullRequest objects: use the in-repo fake
    bb.PullRequest = mock.PullRequest

    host = SimHost(owner='simorg', slug='simrepo')

    class SimBertE(BertE):
        def __init__(self):
            if kind == 'github':
                self.client = gh.Client('robot', 'pw', 'r@sim',
                                        base_url='https://api.github.sim')
                self.client.session.mount('https://', host)
            else:
                self.client = mock.Client('robot', 'pw', 'r@sim')
            self.project_repo = SimpleNamespace(
                owner='simorg', slug='simrepo',
                full_name='simorg/simrepo')
            self.settings = SettingsDict({
                'repository_host': kind, 'repository_owner': 'simorg',
                'repository_slug': 'simrepo', 'build_key': 'pre-merge',
                'pull_request_base_url': 'https://h/pr/{pr_id}',
                'commit_base_url': 'https://h/c/{commit_id}',
                'admins': ['root', 'root2'], 'organization': ORG,
                'robot': 'robot'})
            self.git_repo = SimpleNamespace()
            self.task_queue = Queue()
            self.tasks_done = collections.deque(maxlen=1000)
            self.status = {}
    berte = SimBertE()
    # the OAuth provider is a peer outside the system: its profile answer
    # comes from the table above
    import loginpass

    def profile(self, **kw):
        tok = (kw.get('token') or {}).get('access_token')
        return dict(PROFILES[tok])
    loginpass.Bitbucket.profile = profile
    loginpass.GitHub.profile = profile
    app = server.setup_server(berte)
    app.config['WTF_CSRF_ENABLED'] = True
    app.config['TESTING'] = False
    app.config['PROPAGATE_EXCEPTIONS'] = False

    # loop the forms' outgoing HTTP call back into the app
    class Loop:
        def request(self, method, url, json=None, headers=None, **kw):
            path = re.sub(r'^https?://[^/]+', '', url)
            c = app.test_client()
            hdrs = {k: v for k, v in (headers or {}).items()
                    if k.lower() in ('content-type', 'accept')}
            for k, v in (headers or {}).items():
                if k.lower() == 'cookie':
                    for part in v.split(';'):
                        if '=' in part:
                            name, val = part.strip().split('=', 1)
                            c.set_cookie('localhost', name, val)
            r = c.open(path, method=method, json=json, headers=hdrs)
            return SimpleNamespace(status_code=r.status_code,
                                   text=r.get_data(as_text=True))

        def __getattr__(self, name):
            import requests
            return getattr(requests, name)
    apibase.requests = Loop()
    _Env.apps[kind] = (app, berte, host)
    return _Env.apps[kind]


# ---------------------------------------------------------------------------
# the request matrix

def api_cells():
    from bert_e.server.api import ENDPOINTS, FORMS
    cells = []
    for ep in ENDPOINTS:
        name = ep.__name__
        params = param_variants(name, ep.rule)
        for method in ('GET', 'POST', 'DELETE', 'PATCH', 'PUT'):
            for sess in ('none', 'user', 'admin', 'admin-logged-out'):
                for pv in params:
                    if method != ep.method and pv['tag'] != 'ok0':
                        continue   # wrong method: one parameter set is enough
                    if method != ep.method and any(
                            e.rule == ep.rule and e.method == method
                            for e in ENDPOINTS):
                        continue   # that is another endpoint's cell
                    cells.append({'t': 'api', 'ep': name, 'method': method,
                                  'sess': sess, 'p': pv})
        # sessions obtained through the login route (accepted and refused
        # logins): the endpoint's own method, one well-formed parameter set
        for sess in sorted(LOGINS):
            cells.append({'t': 'api', 'ep': name, 'method': ep.method,
                          'sess': sess, 'p': params[0]})
    for form in FORMS:
        name = form.__name__
        ep = form.endpoint_cls
        params = param_variants(ep.__name__, ep.rule)
        for sess in ('none', 'user', 'admin', 'admin-logged-out'):
            for pv in params:
                cells.append({'t': 'form', 'form': name, 'ep': ep.__name__,
                              'sess': sess, 'p': pv})
        for sess in sorted(LOGINS):
            cells.append({'t': 'form', 'form': name, 'ep': ep.__name__,
                          'sess': sess, 'p': params[0]})
    return cells


def param_variants(name, rule):
    out = []
    if '<path:branch>' in rule:
        for i, b in enumerate(GOOD_BRANCHES):
            for j, f in enumerate(GOOD_FROM if name == 'CreateBranch'
                                  else [None]):
                out.append({'tag': 'ok%d' % (i * 10 + j), 'ok': True,
                            'branch': b, 'branch_from': f})
        for b in BAD_BRANCHES:
            out.append({'tag': 'bad-branch', 'ok': False, 'branch': b,
                        'branch_from': None})
        if name == 'CreateBranch':
            # an ill-formed branching point, for every kind of branch
            for b in (GOOD_BRANCHES[0], GOOD_BRANCHES[2], GOOD_BRANCHES[3]):
                for f in BAD_FROM:
                    out.append({'tag': 'bad-from', 'ok': False,
                                'branch': b, 'branch_from': f})
            out.append({'tag': 'extra-json', 'ok': True,
                        'branch': GOOD_BRANCHES[1], 'branch_from': None,
                        'extra': {'unexpected': 'x'}})
        # a body that repeats the URL parameter: the validated URL wins
        out.append({'tag': 'body-shadows-url', 'ok': True,
                    'branch': GOOD_BRANCHES[2], 'branch_from': None,
                    'extra': {'branch': 'master'}})
    elif '<int:pr_id>' in rule:
        for i, n in enumerate([1, 7, 123456]):
            out.append({'tag': 'ok%d' % i, 'ok': True, 'pr_id': n})
        for n in [0, -1, 'abc', '1.5', '']:
            out.append({'tag': 'bad-pr', 'ok': False, 'pr_id': n})
        out.append({'tag': 'body-shadows-url', 'ok': True, 'pr_id': 12,
                    'extra': {'pr_id': 0}})
    elif '<string:job_id>' in rule:
        out.append({'tag': 'ok0', 'ok': True, 'job_id': 'nope'})
    else:
        out.append({'tag': 'ok0', 'ok': True})
        out.append({'tag': 'ok1', 'ok': True, 'extra': {'foo': 'bar'}})
    return out


def hook_cells(kind):
    cells = []
    # (re-split: the right characters, the login/password boundary moved)
    creds = ['none', 'wrong-user', 'wrong-pw', 'right', 'resplit',
             'resplit-empty-login']
    # a repository identity that differs, and one that is not there at all
    idents = ['match', 'other-owner', 'other-slug', 'absent', 'null',
              'empty', 'id-missing', 'id-empty', 'id-null']
    bb_events = ['repo:commit_status_created', 'repo:commit_status_updated',
                 'repo:commit_status_created:INPROGRESS',
                 'pullrequest:comment_created', 'pullrequest:updated',
                 'pullrequest:approved', 'repo:push', 'issue:created']
    gh_events = ['pull_request:opened', 'pull_request:closed',
                 'issue_comment', 'issue_comment:not-a-pr',
                 'pull_request_review', 'status:success', 'status:pending',
                 'check_suite', 'push', 'ping']
    for route, events in (('/bitbucket', bb_events), ('/github', gh_events)):
        for ev in events:
            for c in creds:
                for ident in idents:
                    cells.append({'t': 'hook', 'route': route, 'ev': ev,
                                  'cred': c, 'ident': ident})
    return cells


# ---------------------------------------------------------------------------

class Matrix:
    def __init__(self, kind, scratch):
        self.kind = kind
        self.app, self.berte, self.host = make_app(kind, scratch)
        self.clients = {}
        self.stats = {'probes': {}, 'faults': {}}
        self.trace = []

    def probe(self, n):
        self.stats['probes'][n] = self.stats['probes'].get(n, 0) + 1

    def client(self, name):
        if name not in self.clients:
            self.clients[name] = {'c': self.app.test_client(),
                                  'state': 'none'}
        return self.clients[name]

    def set_session(self, cl, want):
        """Drive a client's session to the wanted state (churn included)."""
        c = cl['c']
        if cl['state'] == 'refused-login':
            # nothing to log out from: a new browser session
            cl['c'] = c = self.app.test_client()
            cl['state'] = 'none'
        if want == 'none':
            if cl['state'] != 'none':
                r = c.get('/logout')
                cl['state'] = 'none'
            return
        if want == 'admin-logged-out':
            self.set_session(cl, 'admin')
            c.get('/logout')
            cl['state'] = 'none'
            return
        if want in LOGINS:
            # through the front door: whatever the client was before, it
            # logs out, then presents a token to /api/auth
            token, worth = LOGINS[want]
            if cl['state'] != 'none':
                c.get('/logout')
                cl['state'] = 'none'
            self.nlogin = getattr(self, 'nlogin', 0) + 1
            hdrs = {'Content-Type': 'application/json'} \
                if self.nlogin % 2 else {}
            try:
                r = c.get('/api/auth?access_token=' + token, headers=hdrs)
                status = r.status_code
            except Exception:
                status = 500
            if worth == 'none' and status < 400:
                raise Violation(
                    'C14', 'C14:login-accepted:' + want,
                    'the login of %s (%r, organization %s) was answered %d'
                    % (token, PROFILES[token], ORG, status), {})
            if worth != 'none' and status >= 400:
                raise Violation(
                    'C14', 'C14:login-refused:' + want,
                    'the login of %s (%r, organization %s) was answered %d'
                    % (token, PROFILES[token], ORG, status), {})
            self.probe('login-' + ('accepted' if worth != 'none'
                                   else 'refused'))
            cl['state'] = want if worth != 'none' else 'refused-login'
            return
        user = 'root' if want == 'admin' else 'alice'
        with c.session_transaction() as s:
            s['user'] = user
            s['admin'] = user in self.berte.settings.admins
        cl['state'] = want

    def drain(self):
        q = self.berte.task_queue
        jobs = list(q.queue)
        q.queue.clear()
        return jobs

    # -- one cell
    def run_cell(self, cell, cname):
        cl = self.client(cname)
        self.drain()
        if cell['t'] == 'hook':
            res = self.do_hook(cell, cl)
        else:
            self.set_session(cl, cell['sess'])
            res = self.do_api(cell, cl) if cell['t'] == 'api' \
                else self.do_form(cell, cl)
        self.trace.append(digest([cell, cname, res]))
        return res

    def expect_api(self, cell):
        """Reference ACL -> ('refuse' | 'enqueue' | 'serve')."""
        from bert_e.server.api import ENDPOINTS
        ep = [e for e in ENDPOINTS if e.__name__ == cell['ep']][0]
        if cell.get('method', ep.method) != ep.method:
            return 'refuse'
        sess = effective(cell['sess'])
        if sess == 'none':
            return 'refuse'
        need_admin = cell['ep'] in ADMIN_ENDPOINTS
        if cell['ep'] not in KNOWN_ENDPOINTS:
            self.probe('endpoint-unknown-to-reference:' + cell['ep'])
            need_admin = False
        if need_admin and sess != 'admin':
            return 'refuse'
        if not cell['p']['ok']:
            return 'refuse'
        if ep.method == 'GET':
            return 'serve'
        return 'enqueue'

    def url_of(self, cell):
        from bert_e.server.api import ENDPOINTS
        ep = [e for e in ENDPOINTS if e.__name__ == cell['ep']][0]
        p = cell['p']
        url = '/api' + ep.rule
        url = url.replace('<path:branch>', str(p.get('branch')))
        url = url.replace('<int:pr_id>', str(p.get('pr_id')))
        url = url.replace('<string:job_id>', str(p.get('job_id')))
        return ep, url.replace('\n', '%0A').replace(' ', '%20')

    def body_of(self, cell):
        p = cell['p']
        body = {}
        if p.get('branch_from') is not None:
            body['branch_from'] = p['branch_from']
        body.update(p.get('extra') or {})
        return body

    def do_api(self, cell, cl):
        ep, url = self.url_of(cell)
        body = self.body_of(cell)
        r = cl['c'].open(url, method=cell['method'], json=body,
                         headers={'Accept': 'application/json'})
        jobs = self.drain()
        exp = self.expect_api(cell)
        self.judge(cell, exp, r.status_code, jobs, ep, body)
        return [r.status_code, len(jobs)]

    def judge(self, cell, exp, status, jobs, ep, body):
        tag = '%s:%s:%s:%s' % (cell['t'], cell['ep'], cell['sess'],
                               cell['p']['tag'])
        if exp == 'refuse':
            self.probe('refused')
            if jobs:
                raise Violation(
                    'C14', 'C14:unauthorised-enqueue:' + tag,
                    '%s %s by a %s session with %s parameters must be '
                    'refused but enqueued %s' % (
                        cell.get('method', 'POST'), cell['ep'], cell['sess'],
                        cell['p']['tag'], [type(j).__name__ for j in jobs]),
                    {'cell': cell})
            if cell['t'] == 'api' and status < 400:
                raise Violation(
                    'C14', 'C14:refusal-without-error-status:' + tag,
                    '%s %s by a %s session with %s parameters must be '
                    'refused with an error status, got %d' % (
                        cell.get('method'), cell['ep'], cell['sess'],
                        cell['p']['tag'], status), {'cell': cell})
            return
        if exp == 'serve':
            self.probe('served')
            if jobs:
                raise Violation('C14', 'C14:read-endpoint-enqueued:' + tag,
                                'a GET endpoint enqueued a job', {})
            return
        self.probe('enqueued')
        if len(jobs) != 1 or type(jobs[0]) is not ep.job:
            raise Violation(
                'C14', 'C14:wrong-job:' + tag,
                '%s by a %s session must enqueue exactly one %s, got %s '
                '(status %d)' % (cell['ep'], cell['sess'], ep.job.__name__,
                                 [type(j).__name__ for j in jobs], status),
                {'cell': cell})
        job = jobs[0]
        want = dict(body)
        p = cell['p']
        if 'branch' in p:
            want['branch'] = p['branch']
        if 'pr_id' in p:
            want['pr_id'] = int(p['pr_id'])
        got = dict(job.settings.maps[0])
        if got != want:
            raise Violation(
                'C14', 'C14:job-parameters:' + tag,
                'the %s job carries %r, the validated request said %r' % (
                    ep.job.__name__, got, want), {'cell': cell})
        user = 'root' if effective(cell['sess']) == 'admin' else 'alice'
        if job.user != user:
            raise Violation('C14', 'C14:job-user:' + tag,
                            'job user is %r, session user %r' % (job.user,
                                                                 user), {})

    def do_form(self, cell, cl):
        from bert_e.server.api import FORMS
        form = [f for f in FORMS if f.__name__ == cell['form']][0]
        ep = form.endpoint_cls
        c = cl['c']
        # fetch a CSRF token the way a browser would (needs a session)
        token = ''
        page = c.get('/manage')
        m = re.search(r'name="csrf_token"[^>]*value="([^"]+)"',
                      page.get_data(as_text=True))
        if m:
            token = m.group(1)
        p = cell['p']
        data = {'csrf_token': token}
        if 'branch' in p:
            data['branch'] = p['branch']
            if ep.__name__ == 'CreateBranch':
                # a browser always submits the (possibly empty) field
                data['branch_from'] = p.get('branch_from') or ''
        if 'pr_id' in p:
            data['pr_id'] = str(p['pr_id'])
        r = c.post('/form/' + form.__name__, data=data)
        jobs = self.drain()
        exp = self.expect_api(dict(cell, method=ep.method))
        body = {}
        if exp == 'enqueue':
            # forms pass every field of the form as json
            if 'branch' in p and ep.__name__ == 'CreateBranch':
                body['branch_from'] = p.get('branch_from') or ''
            if p.get('extra'):
                exp = 'skip'
        if exp == 'skip':
            return [r.status_code, len(jobs)]
        if exp == 'enqueue' and not token:
            exp = 'refuse'
        self.judge(dict(cell, method='POST'), exp, r.status_code, jobs, ep,
                   body)
        return [r.status_code, len(jobs)]

    # -- webhooks
    def do_hook(self, cell, cl):
        from bert_e.job import CommitJob, PullRequestJob
        route, ev = cell['route'], cell['ev']
        owner, slug = 'simorg', 'simrepo'
        if cell['ident'] == 'other-owner':
            owner = 'evilorg'
        elif cell['ident'] == 'other-slug':
            slug = 'otherrepo'
        headers = {'Content-Type': 'application/json'}
        cred = {'none': None, 'wrong-user': ('mallory', HOOK_PW),
                'wrong-pw': (HOOK_USER, 'nope'),
                'right': (HOOK_USER, HOOK_PW),
                'resplit': (HOOK_USER + HOOK_PW[:2], HOOK_PW[2:]),
                'resplit-empty-login': ('', HOOK_USER + HOOK_PW)}[
                    cell['cred']]
        if cred:
            headers['Authorization'] = 'Basic ' + base64.b64encode(
                ('%s:%s' % cred).encode()).decode()
        expect_job = None
        sha = 'b97b433b41405f157c51ca1336c21583413b87f3'
        if route == '/bitbucket':
            from bert_e.tests import test_server_data as tsd
            parts = ev.split(':')
            headers['X-Event-Key'] = ':'.join(parts[:2])
            if parts[0] == 'repo' and parts[1].startswith('commit_status'):
                data = copy.deepcopy(tsd.COMMIT_STATUS_CREATED)
                data['commit_status']['state'] = parts[2] if len(parts) > 2 \
                    else 'SUCCESSFUL'
                if len(parts) == 2:
                    expect_job = (CommitJob, sha)
            elif parts[0] == 'pullrequest':
                data = copy.deepcopy(tsd.COMMENT_CREATED)
                expect_job = (PullRequestJob, data['pullrequest']['id'])
            else:
                data = copy.deepcopy(tsd.COMMENT_CREATED)
            data['repository']['owner'] = {'username': owner}
            data['repository']['name'] = slug
            data['repository']['full_name'] = '%s/%s' % (owner, slug)
        else:
            parts = ev.split(':')
            headers['X-Github-Event'] = parts[0]
            repo = {'name': slug, 'full_name': '%s/%s' % (owner, slug),
                    'owner': {'login': owner, 'id': 1}}
            pr = {'number': 5, 'state': 'open', 'title': 't',
                  'user': {'login': 'alice', 'id': 2},
                  'head': {'ref': 'bugfix/x', 'sha': sha, 'repo': repo},
                  'base': {'ref': 'development/4.3', 'sha': sha,
                           'repo': repo}}
            data = {'repository': repo}
            if parts[0] == 'pull_request':
                data.update({'action': parts[1], 'number': 5,
                             'pull_request': pr})
                if parts[1] != 'closed':
                    expect_job = (PullRequestJob, 5)
            elif parts[0] == 'issue_comment':
                is_pr = len(parts) == 1
                data.update({'action': 'created', 'issue': {
                    'number': 5, 'title': 't', 'pull_request': (
                        {'url': 'https://api.github.sim/repos/simorg/'
                                'simrepo/pulls/5'} if is_pr else {})}})
                self.host.extra_routes = {
                    '/repos/simorg/simrepo/pulls/5': pr}
                if is_pr:
                    expect_job = (PullRequestJob, 5)
            elif parts[0] == 'pull_request_review':
                data.update({'action': 'submitted', 'pull_request': pr})
                expect_job = (PullRequestJob, 5)
            elif parts[0] == 'status':
                data.update({'sha': sha, 'state': parts[1],
                             'context': 'pre-merge', 'description': 'd',
                             'target_url': 'https://ci'})
                if parts[1] != 'pending':
                    expect_job = (CommitJob, sha)
            elif parts[0] == 'check_suite':
                self.host.gh_runs[sha] = [self.host.make_run(
                    1, sha, 'q/4.3', 1, 'push', 'completed', 'success')]
                data.update({'action': 'completed', 'check_suite': {
                    'id': 1, 'head_sha': sha, 'head_branch': 'q/4.3',
                    'status': 'completed', 'conclusion': 'success'}})
                expect_job = (CommitJob, sha)
        ident = cell['ident']
        if ident == 'absent':
            del data['repository']
        elif ident == 'null':
            data['repository'] = None
        elif ident == 'empty':
            data['repository'] = {}
        elif ident.startswith('id-'):
            # the fields the route identifies the repository by
            rep = data['repository']
            if route == '/github':
                if ident == 'id-missing':
                    rep.pop('full_name')
                else:
                    rep['full_name'] = '' if ident == 'id-empty' else None
            else:
                if ident == 'id-missing':
                    rep.pop('name')
                    rep['owner'] = {}
                elif ident == 'id-empty':
                    rep['name'] = ''
                    rep['owner'] = {'username': ''}
                else:
                    rep['name'] = None
                    rep['owner'] = {'username': None}
        allowed = cell['cred'] == 'right' and cell['ident'] == 'match' and (
            (route == '/github') == (self.kind == 'github'))
        if route == '/bitbucket' and self.kind == 'github':
            # the bitbucket route has no host-kind check of its own; the
            # statement only requires credentials + repository identity
            allowed = cell['cred'] == 'right' and cell['ident'] == 'match'
        from bert_e.git_host.cache import BUILD_STATUS_CACHE
        BUILD_STATUS_CACHE.clear()
        try:
            r = cl['c'].post(route, data=json.dumps(data), headers=headers)
            status = r.status_code
        except Exception as err:
            # handler raised (propagated by the test client): a 500
            status = 500
            self.probe('webhook-handler-exception:%s' % type(err).__name__)
        jobs = self.drain()
        tag = 'hook:%s:%s:%s:%s' % (route, ev, cell['cred'], cell['ident'])
        if not allowed:
            self.probe('hook-refused')
            if jobs:
                raise Violation(
                    'C14', 'C14:webhook-unauthorised-enqueue:' + tag,
                    'webhook %s %s with credentials=%s repository=%s on a '
                    '%s-configured instance enqueued %s' % (
                        route, ev, cell['cred'], cell['ident'], self.kind,
                        [type(j).__name__ for j in jobs]), {'cell': cell})
            if status < 400:
                raise Violation(
                    'C14', 'C14:webhook-refusal-without-error:' + tag,
                    'webhook %s %s with credentials=%s repository=%s on a '
                    '%s-configured instance was answered %d' % (
                        route, ev, cell['cred'], cell['ident'], self.kind,
                        status), {'cell': cell})
            return [status, 0]
        if route == '/bitbucket' and self.kind == 'github':
            # outside the reference's knowledge: only "nothing beyond one
            # job of the right kind"
            if len(jobs) > 1:
                raise Violation('C14', 'C14:webhook-multi-enqueue:' + tag,
                                'more than one job', {})
            return [status, len(jobs)]
        if expect_job is None:
            self.probe('hook-ignored-event')
            if jobs:
                raise Violation(
                    'C14', 'C14:webhook-unhandled-event-enqueued:' + tag,
                    'event %s enqueued %s' % (
                        ev, [type(j).__name__ for j in jobs]), {})
            return [status, 0]
        self.probe('hook-enqueued')
        cls, key = expect_job
        ok = len(jobs) == 1 and type(jobs[0]) is cls and (
            (cls is CommitJob and jobs[0].commit == key) or
            (cls is PullRequestJob and jobs[0].pull_request.id == key))
        if not ok or status >= 300:
            raise Violation(
                'C14', 'C14:webhook-wrong-job:' + tag,
                'authorised webhook %s %s must enqueue one %s(%s), got %s '
                '(status %d)' % (route, ev, cls.__name__, key, [
                    (type(j).__name__, getattr(j, 'commit', None) or getattr(
                        getattr(j, 'pull_request', None), 'id', None))
                    for j in jobs], status), {'cell': cell})
        return [status, 1]


def run_matrix(kind, order_seed, scratch, only=None):
    m = Matrix(kind, scratch)
    cells = api_cells() + hook_cells(kind)
    rng = random.Random(order_seed)
    rng.shuffle(cells)
    if only is not None:
        cells = only
    v = None
    n = 0
    hist = {}
    try:
        for cell in cells:
            # (a replay is the history of one client, played on one client)
            cname = 'c0' if only is not None else 'c%d' % rng.randrange(3)
            hist.setdefault(cname, []).append(cell)
            m.run_cell(cell, cname)
            n += 1
    except Violation as err:
        v = err
        v.detail['cell'] = cell
        # what this client did before matters (its session survives from
        # cell to cell): the replay is its whole history
        v.detail['cells'] = hist[cname]
    return v, m, n, cells


# ---------------------------------------------------------------------------
# concurrent requests (the server answers each request on its own thread)

THREAD_TRACED = tuple(os.path.join('bert_e', *p) for p in (
    ('server', 'api', 'base.py'), ('server', 'api', 'pull_requests.py'),
    ('server', 'api', 'gwf', 'branches.py'),
    ('server', 'api', 'gwf', 'queues.py'), ('server', 'auth.py'),
    ('bert_e.py',), ('job.py',)))


THREAD_BAD_BRANCHES = ['development/4.3.1', 'dev/4.3', 'feature/foo',
                       'q/4.3', 'stabilization/5.1', 'release/4.3']


def gen_thread_case(rng):
    """2-3 simultaneous API requests, each with its own session, URL
    parameters and body; some ill-formed, some lacking the rights."""
    eps = ['EvalPullRequest', 'EvalPullRequest', 'CreateBranch',
           'DeleteBranch', 'RebuildQueues', 'ForceMergeQueues']
    reqs = []
    # mostly the same endpoint class for all (shared view state, if any)
    same = rng.choice(eps)
    for i in range(rng.choice([2, 2, 3])):
        ep = same if rng.random() < 0.8 else rng.choice(eps)
        r = {'ep': ep, 'sess': rng.choice(['user', 'admin', 'admin',
                                           'none']),
             'user': rng.choice(['alice', 'bob']) if i % 2 else 'alice'}
        if ep == 'EvalPullRequest':
            r['pr_id'] = rng.choice([0, -3, 'abc']) if rng.random() < 0.25 \
                else 100 + 10 * i + rng.randrange(9)
        elif ep in ('CreateBranch', 'DeleteBranch'):
            r['branch'] = rng.choice(THREAD_BAD_BRANCHES) \
                if rng.random() < 0.25 \
                else rng.choice(['development/%d.%d', 'development/%d.%d',
                                 'stabilization/%d.%d.1',
                                 'hotfix/%d.%d.0']) % (20 + i,
                                                       rng.randrange(9))
            if ep == 'CreateBranch' and rng.random() < 0.5:
                r['branch_from'] = rng.choice(GOOD_FROM[1:] + BAD_FROM[:1])
        reqs.append(r)
    plan = {}
    for k in range(rng.choice([0, 1, 2, 3, 4])):
        plan[rng.randrange(1, 160)] = rng.randrange(3)
    return {'reqs': reqs, 'plan': sorted(plan.items()),
            'prios': [rng.random() for r in reqs]}


def run_thread_case(kind, case, scratch):
    from bert_e.server.api import ENDPOINTS
    from ..e2_threads import Sched
    app, berte, host = make_app(kind, scratch)
    q = berte.task_queue
    q.queue.clear()
    sched = Sched(dict((int(k), v) for k, v in case['plan']),
                  max_steps=20000, traced=THREAD_TRACED)
    answers = [None] * len(case['reqs'])
    clients = []
    for r in case['reqs']:
        c = app.test_client()
        if r['sess'] != 'none':
            user = 'root' if r['sess'] == 'admin' else r['user']
            with c.session_transaction() as s:
                s['user'] = user
                s['admin'] = user in berte.settings.admins
        clients.append(c)

    def body(i, r, c):
        def fn():
            ep = [e for e in ENDPOINTS if e.__name__ == r['ep']][0]
            url = '/api' + ep.rule
            if 'pr_id' in r:
                url = url.replace('<int:pr_id>', str(r['pr_id']))
            if 'branch' in r:
                url = url.replace('<path:branch>', r['branch'])
            body = {}
            if r.get('branch_from'):
                body['branch_from'] = r['branch_from']
            try:
                resp = c.open(url, method=ep.method, json=body,
                              headers={'Accept': 'application/json'})
                answers[i] = resp.status_code
            except Exception as err:
                answers[i] = 500
        return fn
    for i, (r, c) in enumerate(zip(case['reqs'], clients)):
        sched.add('req%d' % i, case['prios'][i], body(i, r, c))
    sched.run()
    jobs = list(q.queue)
    q.queue.clear()
    info = {'steps': sched.step, 'fired': len(sched.fired),
            'schedule': digest(sched.log)}
    for t in sched.threads:
        if t.error is not None:
            return Violation('C14', 'C14:request-thread-error',
                             'request thread raised %r' % (t.error,),
                             {}), info
    # what the accepted requests, each taken alone, must have enqueued
    want = []
    for i, r in enumerate(case['reqs']):
        ep = [e for e in ENDPOINTS if e.__name__ == r['ep']][0]
        ok_sess = r['sess'] == 'admin' or (
            r['sess'] == 'user' and r['ep'] not in ADMIN_ENDPOINTS)
        ok_par = True
        if 'pr_id' in r:
            ok_par = isinstance(r['pr_id'], int) and r['pr_id'] >= 1
        if 'branch' in r:
            ok_par = r['branch'] not in BAD_BRANCHES and \
                r.get('branch_from') not in BAD_FROM
        allowed = ok_sess and ok_par
        code = answers[i]
        if not allowed:
            if code is None or code < 400:
                return Violation(
                    'C14', 'C14:concurrent:refusal-without-error-status',
                    'request %d (%s) must be refused, answered %s' % (
                        i, r, code), {}), info
            continue
        if code is None or code >= 300:
            return Violation(
                'C14', 'C14:concurrent:allowed-request-refused',
                'request %d (%s) must be accepted, answered %s' % (
                    i, r, code), {}), info
        exp = {}
        if 'pr_id' in r:
            exp['pr_id'] = r['pr_id']
        if 'branch' in r:
            exp['branch'] = r['branch']
            if r['ep'] == 'CreateBranch' and r.get('branch_from'):
                exp['branch_from'] = r['branch_from']
        user = 'root' if r['sess'] == 'admin' else r['user']
        want.append((ep.job.__name__, sorted(exp.items()), user))
    got = []
    for j in jobs:
        st = dict(j.settings.maps[0])
        if not st.get('branch_from'):
            st.pop('branch_from', None)
        got.append((type(j).__name__, sorted(st.items()), j.user))
    # equal jobs are merged by put_job: compare as sets
    if set(map(repr, got)) != set(map(repr, want)):
        return Violation(
            'C14', 'C14:concurrent:job-does-not-match-its-request',
            'simultaneous requests %s were answered %s; the queue holds %s, '
            'the accepted requests taken one by one say %s' % (
                case['reqs'], answers, got, want), {}), info
    return None, info


class C14:
    ID = 'C14'
    ENGINE = 'e3'
    LEVEL = 'exploration'
    RUN_TIMEOUT = 600
    BUDGET = {'quick': 40, 'thorough': 400}
    MINIMISE = False
    RULE = ('one evaluation = one complete pass over the request matrix '
            '(every registered API endpoint and form x 5 methods x 4 session '
            'states x parameter variants, plus 6 session states obtained '
            'through the login route - accepted and refused logins; both '
            'webhook routes x 4 credentials x 9 repository identities x '
            'handled and unhandled '
            'event types) on a Bitbucket- or GitHub-configured instance, in '
            'a seeded order interleaved over 3 clients with session churn; '
            'distinct = different order; non-trivial = a pass that executed '
            'every cell')
    REAL = ['Flask app from bert_e.server.setup_server (auth decorators, '
            'API views, forms, webhook routes, session handling)',
            'BertE.put_job', 'job classes',
            'bert_e.git_host.github event classes (github instance)']
    STUBBED = ['BertE.__init__ (inert instance: no git, mock/github client '
               'on the simulated host)', 'the OAuth identity provider (profile answers '
               'come from a table; /api/auth and _handle_authorize are the '
               'real ones; the browser redirect flow is not exercised)', 'outgoing HTTP of the forms '
               '(looped back into the same app)']
    ASSUMPTIONS = ['the reference ACL (DESIGN.md A.5) lists the admin '
                   'endpoints by name; endpoints unknown to it are held to '
                   'the weaker "authenticated" rule and reported']

    def tasks(self, base_seed, tier):
        i = 0
        while True:
            if i % 4 == 3:
                # simultaneous requests under the thread scheduler
                yield {'property': 'C14', 'tier': tier, 'mode': 'explore',
                       'seed': derive_seed(base_seed, 'C14', 'e3t', i),
                       'name': 'C14#t%d' % i, 'hang_s': 580,
                       'part': 'threads', 'batch': 150 if tier == 'quick'
                       else 600, 'kind': 'github' if i % 8 == 7
                       else 'bitbucket'}
            else:
                yield {'property': 'C14', 'tier': tier, 'mode': 'explore',
                       'seed': derive_seed(base_seed, 'C14', 'e3', i),
                       'name': 'C14#%d' % i, 'hang_s': 580,
                       'kind': 'github' if i % 2 else 'bitbucket'}
            i += 1

    def run_threads(self, task):
        """A batch of concurrent-request cases under the baton scheduler."""
        import random
        kind = task.get('kind') or (task.get('config') or {}).get('kind')
        stats = {'jobs': 0, 'ops': 0, 'faults': {}, 'probes': {}}
        trace, viol, out = [], [], (None, [])
        if task.get('mode') == 'replay':
            cases = [task['ops'][0]]
        else:
            rng0 = random.Random(task['seed'])
            cases = (gen_thread_case(random.Random(rng0.randrange(2 ** 48)))
                     for i in range(task.get('batch', 150)))
        runs = 0
        nontrivial = set()
        for case in cases:
            v, info = run_thread_case(kind, case, task['scratch'])
            runs += 1
            stats['ops'] += len(case['reqs'])
            if info['fired']:
                stats['faults']['preempt'] = stats['faults'].get(
                    'preempt', 0) + info['fired']
                stats['probes']['concurrent-case-with-preemption'] = \
                    stats['probes'].get(
                        'concurrent-case-with-preemption', 0) + 1
            stats['probes']['concurrent-case'] = stats['probes'].get(
                'concurrent-case', 0) + 1
            trace.append(digest([case, info['schedule']]))
            nontrivial.add(info['schedule'])
            if v is not None:
                viol.append(v.as_dict())
                out = ({'kind': kind, 'part': 'threads'}, [case])
                break
        res = {'property': 'C14', 'seed': task['seed'],
               'config': out[0] or {'kind': kind, 'part': 'threads'},
               'ops': out[1], 'violations': viol, 'stats': stats,
               'runs': runs, 'states': [], 'transitions': [],
               'nontrivial_digests': sorted(nontrivial),
               'nontrivial_runs': runs,
               'trace_digest': digest(trace), 'sim_seconds': 0,
               'extra': {}, 'samples': []}
        if task.get('want_trace'):
            res['trace'] = trace
        return res

    def run(self, task):
        kind = task.get('kind') or (task.get('config') or {}).get('kind')
        if task.get('part') == 'threads' or \
                (task.get('config') or {}).get('part') == 'threads':
            return self.run_threads(task)
        only = task['ops'] if task.get('mode') == 'replay' else None
        v, m, n, cells = run_matrix(kind, task['seed'], task['scratch'],
                                    only)
        ops_out = (v.detail.pop('cells', None) or [v.detail['cell']]) \
            if v else []
        res = {'property': 'C14', 'seed': task['seed'],
               'config': {'kind': kind}, 'ops': ops_out,
               'violations': [v.as_dict()] if v else [],
               'stats': {'jobs': 0, 'ops': n, 'faults': {},
                         'probes': m.stats['probes']},
               'runs': 1, 'states': [], 'transitions': [],
               'nontrivial': v is None and n == len(cells),
               'trace_digest': digest(m.trace), 'sim_seconds': 0,
               'extra': {'cells_in_matrix': len(cells),
                         'cells_executed': n},
               'samples': [{'kind': kind, 'first_cells': cells[:6]}]}
        if task.get('want_trace'):
            res['trace'] = m.trace
        return res
