"""Base class of E1 (world) properties."""
import logging

from .. import ops
from ..core import Violation  # noqa: F401


class E1Prop:
    ID = ''
    ENGINE = 'e1'
    LEVEL = 'exploration'
    PROFILE = {}
    WEIGHTS = {}
    GEN_KW = {}
    NOPS = (8, 22)
    LOG_LEVEL = logging.INFO
    RUN_TIMEOUT = 600
    REAL = ['bert_e.bert_e.BertE (put_job, process_task, process)',
            'bert_e.workflow.* (gitwaterflow, integration, queueing, '
            'branches, commands, jira, git_utils, pr_utils)',
            'bert_e.jobs.* (admin jobs)', 'bert_e.reactor',
            'bert_e.lib.git / simplecmd / retry', 'bert_e.settings',
            'bert_e.git_host.mock (the in-repo fake host)',
            'git 2.39 binary: bare remote, mirror cache, working clones']
    STUBBED = ['users, reviewers, admins, CI, webhook delivery (simulated '
               'actors driving the mock host and a second clone)',
               'Jira (in-process fake behind bert_e.lib.jira.JiraIssue)',
               'clock, uuid, temp-dir names, HOME, git dates (seams)',
               'Bitbucket/GitHub HTTP (not used in E1: mock host)']
    ASSUMPTIONS = ['the mock host stands for the real hosts',
                   'faults are placed at operation boundaries',
                   'seeded sampling, not exhaustive']

    def gen_config(self, rng, tier):
        return ops.gen_config(rng, self.PROFILE)

    def begin(self, w, rng):
        self.gen = ops.Gen(rng, w.cfg, self.WEIGHTS, **self.GEN_KW)

    def nops(self, rng, tier):
        return rng.randint(*self.NOPS)

    def next_op(self, w, rng, step, nsteps):
        return self.gen.next(w)

    def apply(self, w, op):
        return ops.apply_op(w, op)

    def check_job(self, w, rec):
        pass

    def check_op(self, w, op, recs):
        pass

    def final(self, w, rng, replay=False):
        pass

    def nontrivial(self, w):
        """Did this run exercise the mechanism the property is about?"""
        return w.stats['jobs'] > 0

    def extra_stats(self, w):
        return {}
