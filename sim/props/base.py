"""Base class of E1 (world) properties."""
import logging

from .. import ops
from ..core import Violation  # noqa: F401


class E1Prop:
    ID = ''
    ENGINE = 'e1'
    LEVEL = 'exploration'
    PROFILE = {}
    WEIGHTS = {}
    GEN_KW = {}
    NOPS = (8, 22)
    LOG_LEVEL = logging.INFO
    RUN_TIMEOUT = 600

    def gen_config(self, rng, tier):
        return ops.gen_config(rng, self.PROFILE)

    def begin(self, w, rng):
        self.gen = ops.Gen(rng, w.cfg, self.WEIGHTS, **self.GEN_KW)

    def nops(self, rng, tier):
        return rng.randint(*self.NOPS)

    def next_op(self, w, rng, step, nsteps):
        return self.gen.next(w)

    def apply(self, w, op):
        return ops.apply_op(w, op)

    def check_job(self, w, rec):
        pass

    def check_op(self, w, op, recs):
        pass

    def final(self, w, rng, replay=False):
        pass

    def nontrivial(self, w):
        """Did this run exercise the mechanism the property is about?"""
        return w.stats['jobs'] > 0

    def extra_stats(self, w):
        return {}
