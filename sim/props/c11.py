"""C11 - the ticket gate admits a pull request exactly when its Jira issue
fits (E5: real jira_checks, fake Jira service, real cascade)."""
import logging
import os
import random
import re
from types import SimpleNamespace

from ..core import Violation, derive_seed, digest
from ..models import Layout
from .. import e5_cascade as E
from .. import e5_reviews as R

VERSIONS = ['4.3.1', '4.3.2', '5.1.0', '5.1.1', '10.0.0', '10.0.1',
            '10.1.0', '4.3.2_rc1', '5.1.1-hf2', '4.2.3.1', '4.2.3.0',
            '4.3.2.0', '5.1.0.0']
LAYOUTS = [
    (['development/4.3', 'development/5.1', 'development/10.0'],
     ['4.3.0', '5.1.0']),
    (['development/4.3', 'development/5.1', 'development/10.0',
      'stabilization/5.1.1'], ['4.3.1', '5.1.0']),
    (['development/5.1', 'development/10'], ['5.1.0']),
    (['development/4.3', 'hotfix/4.2.3'], ['4.2.3.0', '4.3.0']),
    (['development/10.0'], []),
    (['development/4.3', 'development/4', 'development/5.1',
      'stabilization/4.3.2'], ['4.3.1', 'v5.1.0']),
]
SOURCES = ['bugfix/TEST-12-fix', 'feature/TEST-7', 'improvement/test-33-low',
           'bugfix/no-ticket', 'feature/OTHER-5-foreign', 'project/TEST-1',
           'documentation/TEST-9', 'epic/TEST-2-epic', 'bugfix/TEST-',
           'dependabot/npm/lodash-4.17', 'bug/TEST-44', 'design/RING-3',
           # foreign projects whose key is a fragment of a configured one
           'bugfix/TES-5-fragment', 'feature/T-1', 'bugfix/EST-8',
           'improvement/RIN-2', 'bugfix/ING-6', 'feature/TEST_X-4',
           # a ticket number followed by other digits / punctuation
           'bugfix/TEST-12.1-retry', 'bugfix/TEST-7.2', 'feature/TEST-12_3',
           'bugfix/TEST-122-x']
TYPES = ['Bug', 'Story', 'Improvement', 'Epic', 'Task']
FAIL = ('MissingJiraId', 'JiraIssueNotFound', 'IncorrectJiraProject',
        'IssueTypeNotSupported', 'IncorrectFixVersion')


def gen(rng):
    layout = rng.choice(LAYOUTS)
    heads, tags = layout
    dests = [h for h in heads]
    st = {'jira_account_url': 'https://jira.sim', 'jira_email': 'r@sim',
          'jira_keys': rng.choice([['TEST'], ['TEST', 'RING'], ['RING']]),
          'prefixes': rng.choice([{}, {'Bug': 'bugfix', 'Story': 'feature',
                                       'Improvement': 'improvement'},
                                  {'Bug': 'bugfix'}]),
          'bypass_prefixes': rng.choice([[], [], ['documentation'],
                                         ['dependabot', 'epic']]),
          'disable_version_checks': rng.random() < 0.15}
    r = rng.random()
    if r < 0.08:
        st['jira_keys'] = []
    elif r < 0.14:
        st['jira_account_url'] = ''
    elif r < 0.18:
        st['jira_email'] = ''
    if rng.random() < 0.2:
        st['pr_author_options'] = R.gen_author_options(
            rng, 'alice', ['bypass_jira_check', 'bypass_build_status'],
            others=('bob', 'carol', 'dave'))
    cfg = {'settings': st, 'heads': heads, 'tags': tags,
           'cmd_line_options': ['bypass_jira_check']
           if rng.random() < 0.06 else [],
           'src': rng.choice(SOURCES), 'dst': rng.choice(dests)}
    ops = []
    for i in range(rng.randint(2, 8)):
        r = rng.random()
        if r < 0.55:
            key = rng.choice(['TEST-12', 'TEST-7', 'TEST-33', 'OTHER-5',
                              'TEST-1', 'TEST-9', 'TEST-2', 'TEST-44',
                              'RING-3', 'TES-5', 'T-1', 'EST-8', 'RIN-2',
                              'ING-6', 'TEST_X-4'])
            if rng.random() < 0.5:
                m = re.match(r'^\w+/([a-zA-Z0-9_]+-[0-9]+)', cfg['src'])
                if m:
                    key = m.group(1).upper()
            n = rng.choice([0, 1, 1, 2, 2, 3, 4])
            ops.append({'op': 'issue', 'key': key,
                        'type': rng.choice(TYPES),
                        'fix': rng.sample(VERSIONS, n)})
        elif r < 0.65:
            ops.append({'op': 'fit'})       # set exactly the expected ones
        elif r < 0.75:
            ops.append({'op': 'delete'})
        elif r < 0.85:
            # the service fails for the next 1..4 calls (one evaluation)
            ops.append({'op': 'jiraerr', 'code': rng.choice(
                [404, 500, 502, 401, 429, 503, 429, 503]),
                'n': rng.choice([1, 1, 2, 3, 4])})
        elif r < 0.92:
            ops.append({'op': 'comment', 'by': rng.choice(['root', 'alice',
                                                           'carol']),
                        'text': '@robot bypass_jira_check'})
        else:
            ops.append({'op': 'noop'})
    return cfg, ops


def reference(cfg, src, issue_of, targets_versions, opts, jira_fail):
    """Decision list in the statement's order.  -> outcome class name, or
    'pass', or 'error' (Jira failed: anything but 'pass')."""
    st = cfg['settings']
    if opts.get('bypass_jira_check'):
        return 'pass'
    m = re.match(r'^(\w+)/(.*)$', src)
    prefix, label = m.group(1), m.group(2)
    if prefix in st.get('bypass_prefixes', []):
        return 'pass'
    if not (st.get('jira_keys') and st.get('jira_email') and
            st.get('jira_account_url')):
        return 'pass'
    km = re.match(r'^([a-zA-Z0-9_]+)-[0-9]+', label)
    if not km:
        return 'MissingJiraId'
    key = km.group(0).upper()
    project = km.group(1).upper()
    if jira_fail is not None:
        return 'JiraIssueNotFound' if jira_fail == 404 else 'error'
    issue = issue_of(key)
    if issue is None:
        return 'JiraIssueNotFound'
    if project not in st['jira_keys']:
        return 'IncorrectJiraProject'
    if st.get('prefixes') and issue['type'] not in st['prefixes']:
        return 'IssueTypeNotSupported'
    if st.get('disable_version_checks'):
        return 'pass'
    expected = set(targets_versions)
    listed = set(issue['fixVersions'])
    if len(expected) == 1 and re.match(r'^\d+\.\d+\.\d+\.\d+$',
                                       list(expected)[0]):
        return 'pass' if list(expected)[0] in listed else \
            'IncorrectFixVersion'
    checked = {v for v in listed if re.match(r'^\d+\.\d+\.\d+(\.0)?$', v)}
    return 'pass' if checked == expected else 'IncorrectFixVersion'


class Session:
    def __init__(self, cfg, scratch):
        R._setup(scratch)
        import bert_e.lib.jira as bjira
        from ..world import FakeJira
        self.cfg = cfg
        mock = R._Env.mock
        mock.PullRequest.items = []
        mock.Comment.items = []
        self.jira = FakeJira()
        bjira.JiraIssue = self.jira.make_class()
        self.berte = R.make_berte({'settings': dict(
            cfg['settings'], admins=['root']),
            'cmd_line_options': cfg['cmd_line_options']})
        self.clients = {u: mock.Client(u, 'pw', u + '@s')
                        for u in ['alice', 'carol', 'root', 'robot']}
        repo = self.clients['alice'].get_repository('s', owner='o')
        repo.gitrepo = R._Env.gitstub
        self.pr_id = repo.create_pull_request(
            title='t', src_branch=cfg['src'], dst_branch=cfg['dst'],
            description='').id
        self.probes = {}
        self.trace = []
        self.pending_fail = None
        self.admin_bypass = False

    def probe(self, n):
        self.probes[n] = self.probes.get(n, 0) + 1

    def key_of_src(self):
        m = re.match(r'^\w+/([a-zA-Z0-9_]+-[0-9]+)', self.cfg['src'])
        return m.group(1).upper() if m else None

    def apply(self, op, expected_versions):
        k = op['op']
        if k == 'issue':
            self.jira.issues[op['key']] = {'type': op['type'],
                                           'fixVersions': list(op['fix'])}
        elif k == 'fit':
            key = self.key_of_src()
            if key:
                self.jira.issues[key] = {
                    'type': 'Bug', 'fixVersions': list(expected_versions)}
        elif k == 'delete':
            key = self.key_of_src()
            self.jira.issues.pop(key, None)
        elif k == 'jiraerr':
            self.pending_fail = (op['code'], op.get('n', 1))
        elif k == 'comment':
            repo = self.clients[op['by']].get_repository('s', owner='o')
            repo.gitrepo = R._Env.gitstub
            repo.get_pull_request(self.pr_id).add_comment(op['text'])
            if op['by'] == 'root' and 'bypass_jira_check' in op['text']:
                self.admin_bypass = True

    def evaluate(self):
        from bert_e.job import PullRequestJob
        from bert_e.workflow.gitwaterflow import handle_comments
        from bert_e.workflow.gitwaterflow.jira import jira_checks
        from bert_e.workflow.gitwaterflow.branches import branch_factory
        from bert_e import exceptions as exc
        from jira.exceptions import JIRAError
        cfg = self.cfg
        repo = E.StubRepo(None)
        repo.heads = {h: None for h in cfg['heads']}
        repo.tags = list(cfg['tags'])
        casc = E.run_cascade(repo, cfg['dst'])
        if casc[0] != 'ok':
            return {'outcome': 'cascade-' + casc[0]}
        pr = self.berte.project_repo.get_pull_request(self.pr_id)
        job = PullRequestJob(bert_e=self.berte, pull_request=pr)
        try:
            handle_comments(job)
        except exc.BertE_Exception as err:
            return {'outcome': 'comments:' + type(err).__name__}
        job.git.src_branch = branch_factory(repo, cfg['src'])
        job.git.dst_branch = branch_factory(repo, cfg['dst'])
        job.git.cascade = casc[4]
        fail, nfail = self.pending_fail or (None, None)
        self.pending_fail = None
        self.jira.fail_next = fail
        self.jira.fail_left = nfail
        calls0, failed0 = self.jira.calls, self.jira.failed
        out = {'versions': casc[3], 'jira_fail': fail,
               'opts': {'bypass_jira_check': bool(
                   job.settings.bypass_jira_check or
                   job.author_bypass.get('bypass_jira_check'))}}
        try:
            jira_checks(job)
            out['outcome'] = 'pass'
        except exc.TemplateException as err:
            out['outcome'] = type(err).__name__
        except JIRAError as err:
            out['outcome'] = 'error'
        except Exception as err:
            out['outcome'] = 'crash:' + type(err).__name__
        ncalls = self.jira.calls - calls0
        nfailed = self.jira.failed - failed0
        # the failure is scoped to this evaluation
        self.jira.fail_next = None
        self.jira.fail_left = None
        if ncalls == 0 or nfailed < ncalls:
            # Jira was not consulted, or a retry got a real answer: the
            # reference judges the issue as it is
            out['jira_fail'] = None
        return out


def run_history(cfg, ops, scratch):
    logging.disable(logging.CRITICAL)
    sess = Session(cfg, scratch)
    lay = Layout(cfg['heads'], cfg['tags'])
    expected_versions = [v for v in (lay.fix_versions(cfg['dst']) or [])
                         if v]
    for op in [{'op': 'noop'}] + list(ops):
        sess.apply(op, expected_versions)
        res = sess.evaluate()
        sess.trace.append(digest([op, res.get('outcome')]))
        if res['outcome'].startswith(('cascade-', 'comments:')):
            sess.probe('not-reached:' + res['outcome'])
            continue
        # who switched the bypass on: command line, the author's own entry
        # of pr_author_options, or an admin's comment (comments by others
        # never get here: handle_comments refuses them)
        granted = 'bypass_jira_check' in cfg['cmd_line_options'] or \
            'bypass_jira_check' in (cfg['settings'].get(
                'pr_author_options', {}).get('alice') or []) or \
            sess.admin_bypass
        if bool(res['opts'].get('bypass_jira_check')) != bool(granted):
            return Violation(
                'C11', 'C11:bypass-%s' % (
                    'in-force-without-grant' if not granted
                    else 'granted-but-ignored'),
                'bypass_jira_check is %s for the evaluation; command line '
                '%s, pr_author_options %s, admin comment %s' % (
                    res['opts'].get('bypass_jira_check'),
                    cfg['cmd_line_options'],
                    cfg['settings'].get('pr_author_options'),
                    sess.admin_bypass), {}), sess
        want = reference(cfg, cfg['src'],
                         lambda k: sess.jira.issues.get(k),
                         res['versions'], {'bypass_jira_check': granted},
                         res['jira_fail'])
        sess.probe('ref:' + want)
        got = res['outcome']
        if want == 'error':
            if got == 'pass':
                return Violation(
                    'C11', 'C11:pass-on-jira-error',
                    'Jira answered %s but the ticket gate let the pull '
                    'request through' % res['jira_fail'], {}), sess
            continue
        if got != want:
            return Violation(
                'C11', 'C11:%s-should-be-%s' % (got, want),
                'source %s -> %s, targets %s, issue %s, settings %s: ticket '
                'gate says %s, the statement says %s' % (
                    cfg['src'], cfg['dst'], res['versions'],
                    sess.jira.issues.get(sess.key_of_src()),
                    {k: v for k, v in cfg['settings'].items()
                     if k.startswith(('jira_keys', 'prefixes', 'bypass',
                                      'disable'))}, got, want), {}), sess
    return None, sess


class C11Base:
    ID = 'C11'
    ENGINE = 'e5'
    LEVEL = 'exploration'
    RUN_TIMEOUT = 300
    BUDGET = {'quick': 40, 'thorough': 600}
    BATCH = {'quick': 300, 'thorough': 1500}
    MIN_RUNS = 300
    MIN_WALL = 120
    RULE = ('one evaluation = one seeded history in which Jira editors '
            'create / delete / retype issues and edit fixVersions (incl. '
            'suffixed and x.y.z.n forms), admins comment bypasses and the '
            'Jira API fails (404 vs 5xx), under drawn settings (jira_keys, '
            'prefixes, bypass_prefixes, disable_version_checks, Jira '
            'unconfigured, per-author / command-line bypass), source names '
            'and cascades; after every op the real jira_checks runs on a '
            'fresh job; distinct = different (op, outcome) step digests')
    REAL = ['bert_e.workflow.gitwaterflow.jira (jira_checks and helpers)',
            'FeatureBranch ticket parsing', 'BranchCascade target versions',
            'handle_comments / bypass helpers', 'settings loading']
    STUBBED = ['Jira: in-process fake service behind bert_e.lib.jira.'
               'JiraIssue', 'git: StubRepo']
    ASSUMPTIONS = ['expected versions are those of the real cascade (C09 '
                   'checks them separately)']

    def tasks(self, base_seed, tier):
        i = 0
        while True:
            yield {'property': 'C11', 'tier': tier, 'mode': 'explore',
                   'seed': derive_seed(base_seed, 'C11', 'e5', i),
                   'batch': self.BATCH[tier], 'name': 'C11#%d' % i,
                   'hang_s': 280}
            i += 1

    def run(self, task):
        import bert_e.workflow.gitwaterflow  # noqa: F401
        if task.get('mode') == 'replay':
            v, sess = run_history(task['config'], task['ops'],
                                  task['scratch'])
            return {'property': 'C11', 'seed': task['seed'],
                    'config': task['config'], 'ops': task['ops'], 'runs': 1,
                    'violations': [v.as_dict()] if v else [],
                    'stats': {'probes': sess.probes, 'faults': {}},
                    'trace_digest': digest(sess.trace)}
        rng0 = random.Random(task['seed'])
        stats = {'jobs': 0, 'ops': 0, 'faults': {}, 'probes': {}}
        nontrivial = set()
        viol, samples, traces = [], [], []
        out = (None, [], task['seed'])
        runs = 0
        for i in range(task.get('batch', 300)):
            seed = rng0.randrange(2 ** 48)
            rng = random.Random(seed)
            cfg, ops = gen(rng)
            v, sess = run_history(cfg, ops, task['scratch'])
            runs += 1
            stats['ops'] += len(ops)
            for k, n in sess.probes.items():
                stats['probes'][k] = stats['probes'].get(k, 0) + n
            nontrivial.update(sess.trace)
            traces.append(digest(sess.trace))
            if len(samples) < 2:
                samples.append({'seed': seed, 'config': cfg, 'ops': ops})
            if v is not None:
                viol.append(v.as_dict())
                out = (cfg, ops, seed)
                break
        res = {'property': 'C11', 'seed': out[2], 'config': out[0],
               'ops': out[1], 'violations': viol, 'stats': stats,
               'runs': runs, 'states': [], 'transitions': [],
               'nontrivial_digests': sorted(nontrivial),
               'nontrivial_runs': runs, 'samples': samples,
               'trace_digest': digest(traces), 'sim_seconds': 0, 'extra': {}}
        if task.get('want_trace'):
            res['trace'] = traces
        return res


from .taps import TapMixin, TicketTap  # noqa: E402


class C11(TapMixin, C11Base):
    TAP_CLASS = TicketTap
