"""C10 - re-evaluation converges, never spams, commands run once, and the
outcome does not depend on the instance's past."""
import random
import re

from .. import ops
from ..core import Violation
from ..world import ROBOT
from .base import E1Prop
from .common import msg_title

COMMANDS = {'help': 'HelpMessage', 'status': 'StatusReport',
            'build': 'CommandNotImplemented',
            'retry': 'CommandNotImplemented',
            'clear': 'CommandNotImplemented',
            'reset': ('ResetComplete', 'LossyResetWarning'),
            'force_reset': ('ResetComplete',)}
COMMAND_STATUSES = ('HelpMessage', 'StatusReport', 'CommandNotImplemented',
                    'ResetComplete', 'LossyResetWarning')


def command_of(text):
    raw = text.strip()
    m = re.match(r'^(?:@%s[\s:]*|/)([A-Za-z_]+)\s*$' % ROBOT, raw)
    if m and m.group(1) in COMMANDS:
        return m.group(1)
    return None


def pending_command(comments):
    """(comment object, keyword) of the command a new evaluation would
    execute: the newest command comment posted after the robot's last
    message."""
    for c in reversed(comments):
        if c.user['username'] == ROBOT:
            return None
        kw = command_of(c.content['raw'])
        if kw:
            return c, kw
    return None


class C10(E1Prop):
    ID = 'C10'
    PROFILE = {'p_queue': 0.7, 'p_stab': 0.25, 'p_hotfix': 0.2,
               'ndev': [1, 1, 2, 2, 3, 3]}
    WEIGHTS = {'open_pr': 5, 'ci': 4, 'ci_green_all': 3, 'deliver': 9,
               'deliver_all': 3, 'api': 0.5, 'commit': 1.5, 'comment': 5,
               'wcommit': 0.4, 'restart': 0.3, 'amend': 0.3, 'rebase': 0.3,
               'decline': 0.3, 'approve': 0.6, 'delete_comment': 0.3}
    GEN_KW = {'ci_green_bias': 0.7,
              'comment_texts': [
                  '@%s help' % ROBOT, '@%s reset' % ROBOT, '/reset',
                  '@%s force_reset' % ROBOT, '@%s status' % ROBOT,
                  '@%s build' % ROBOT, '/help', '@%s frobnicate' % ROBOT,
                  '@%s wait' % ROBOT, '@%s approve' % ROBOT,
                  'thanks!', '@%s bypass_build_status' % ROBOT,
                  '@%s reset' % ROBOT, '@%s after_pull_request=1' % ROBOT]}
    NOPS = (8, 20)
    RUN_TIMEOUT = 1200
    BUDGET = {'quick': 90, 'thorough': 900}
    EXPECTED_PROBES = ['repeat-probe', 'command-executed']

    def gen_config(self, rng, tier):
        self.tier = tier
        return ops.gen_config(rng, self.PROFILE)

    def begin(self, w, rng):
        super().begin(w, rng)
        self.nprobes = 0
        self.executions = {}     # id(comment obj) -> count
        self.script = []
        w.c10 = self

    def next_op(self, w, rng, step, nsteps):
        tier = getattr(self, 'tier', 'quick')
        maxp = 2 if tier == 'quick' else 5
        if step == 0 and w.use_queue and rng.random() < 0.2:
            # story: the author pushes one more commit while the PR is in
            # the queue; the queue merges what it has (partial merge); the
            # PR is then evaluated again by the same and by a fresh instance
            dests = ops.dest_branches(w.cfg)
            self.script = [
                {'op': 'open_pr', 'actor': 'alice',
                 'src': 'bugfix/TEST-971', 'dst': rng.choice(dests),
                 'kind': 'new'},
                {'op': 'eval', 'p': 0},
                {'op': 'ci_green_all', 'which': ['src', 'w']},
                {'op': 'eval', 'p': 0},
                {'op': 'commit', 'p': 0, 'kind': 'new'},
                {'op': 'ci_green_all', 'which': ['q']},
                {'op': 'eval_commit', 'target': ['q', 0]},
                {'op': 'probe', 'pick': rng.randrange(10 ** 9), 'nmax': 0,
                 'targets': [{'k': 'pr', 'id': 1}]}]
            for o in self.script:
                o['dt'] = rng.choice([1, 5, 30])
            self.nprobes += 1
        elif step == 0 and w.use_queue and rng.random() < 0.25:
            # story: a multi-target PR sits in the queue and its queue
            # builds end in a non-green state on every version; then the
            # same events keep coming
            dests = ops.dest_branches(w.cfg)
            d = rng.choice(dests[:max(1, len(dests) - 1)])
            self.script = [
                {'op': 'open_pr', 'actor': 'alice',
                 'src': 'bugfix/TEST-961', 'dst': d, 'kind': 'new'},
                {'op': 'eval', 'p': 0},
                {'op': 'ci_green_all', 'which': ['src', 'w']},
                {'op': 'eval', 'p': 0},
                {'op': 'ci_green_all', 'which': ['q'],
                 'state': rng.choice(['FAILED', 'FAILED', 'STOPPED'])},
                {'op': 'probe', 'pick': rng.randrange(10 ** 9),
                 'nmax': 4 if tier == 'quick' else 0}]
            for o in self.script:
                o['dt'] = rng.choice([1, 5, 30])
            self.nprobes += 1
        if step >= 3 and self.nprobes < maxp and (
                rng.random() < 0.15 or step == nsteps - 1):
            self.nprobes += 1
            return {'op': 'probe', 'pick': rng.randrange(10 ** 9),
                    'nmax': 3 if tier == 'quick' else 0, 'dt': 1}
        if self.script:
            return self.script.pop(0)
        if rng.random() < 0.12:
            p = self.gen.pick_pr(w)
            if p is not None:
                # a burst of command comments with evaluations in between
                cmds = ['reset', 'reset', 'force_reset', 'help', 'status',
                        'build']
                who = rng.choice(['alice', 'bob', 'carol', 'root'])
                seq = []
                if rng.random() < 0.4:
                    seq.append({'op': 'eval', 'p': p, 'dt': 1})
                    seq.append({'op': 'wcommit', 'p': p,
                                'vi': rng.randrange(3),
                                'kind': rng.choice(['plain', 'merge']),
                                'actor': None, 'dt': 5})
                if rng.random() < 0.35:
                    # a job that stops before cloning, then the source
                    # moves, then events on the new tip
                    pr = ops.user_pr(w, p)
                    self.script = [
                        {'op': 'comment', 'p': p, 'actor': who,
                         'text': '@%s %s' % (ROBOT, rng.choice(
                             ['status', 'help', 'frobnicate'])), 'dt': 5},
                        {'op': 'eval', 'p': p, 'dt': 1},
                        {'op': 'commit', 'p': p, 'kind': 'new', 'dt': 5},
                        {'op': 'probe', 'pick': rng.randrange(10 ** 9),
                         'nmax': 0, 'dt': 1, 'targets': [
                             {'k': 'commit', 'ref': pr.src_branch},
                             {'k': 'pr', 'id': pr.id}]}]
                    return self.script.pop(0)
                for i in range(rng.choice([2, 2, 3])):
                    seq.append({'op': 'comment', 'p': p, 'actor': who,
                                'text': '@%s %s' % (ROBOT,
                                                    rng.choice(cmds)),
                                'dt': 5})
                    for j in range(rng.choice([1, 1, 2])):
                        seq.append({'op': 'eval', 'p': p, 'dt': 1})
                self.script = seq
                return self.script.pop(0)
        return self.gen.next(w)

    # ------------------------------------------------------------------
    def targets(self, w):
        out = []
        for p in w.pr_table():
            out.append({'k': 'pr', 'id': p['id']})
        seen = set()
        srcs = {p['src'] for p in w.pr_table() if p['author'] != ROBOT}
        for r, sha in sorted(w.heads().items()):
            if (r.startswith(('w/', 'q/')) or r in srcs) and \
                    sha not in seen:
                seen.add(sha)
                out.append({'k': 'commit', 'sha': sha, 'ref': r})
        return out

    def apply(self, w, op):
        if op['op'] != 'probe':
            return ops.apply_op(w, op)
        w.stats['ops'] += 1
        w.clock.advance(op.get('dt', 1))
        if 'targets' not in op:
            ts = self.targets(w)
            r = random.Random(op['pick'])
            if op.get('nmax') and len(ts) > op['nmax']:
                ts = r.sample(ts, op['nmax'])
            # symbolic form for replay
            op['targets'] = [
                {'k': 'pr', 'id': t['id']} if t['k'] == 'pr' else
                {'k': 'commit', 'ref': t['ref']} for t in ts]
        heads = w.heads()
        for t in list(op['targets']):
            if t['k'] == 'commit':
                if t['ref'] not in heads:
                    continue
                ev = {'k': 'commit', 'sha': heads[t['ref']]}
            else:
                ev = {'k': 'pr', 'id': t['id']}

            def repeat(w_, fresh, ev=ev):
                if fresh:
                    w_.restart(wipe=False, count=False)
                w_.on_job_done = lambda rec: self.check_job(w_, rec)
                obs = []
                for i in range(4):
                    w_.deliver(dict(ev))
                    obs.append(w_.observable())
                return obs
            try:
                a = w.fork_variant(lambda w_: repeat(w_, False))
                b = w.fork_variant(lambda w_: repeat(w_, True))
                tag = t['k'] if t['k'] == 'pr' else 'commit:' + \
                    t['ref'].split('/')[0]
                if a[2] != a[3]:
                    raise Violation(
                        'C10', 'C10:no-convergence:%s' % tag,
                        'the 4th consecutive evaluation of %s still changes '
                        'something: %s' % (t, _diff(a[2], a[3])), {})
                if a != b:
                    i = [x != y for x, y in zip(a, b)].index(True)
                    raise Violation(
                        'C10', 'C10:depends-on-instance-history:%s' % tag,
                        'evaluation #%d of %s by the long-lived instance '
                        'and by a fresh one differ: %s' % (
                            i + 1, t, _diff(a[i], b[i])), {})
            except Violation as v:
                op['targets'] = [t]
                v.detail['target'] = t
                raise
            w.probe('repeat-probe')
            if a[0] != a[1]:
                w.probe('second-evaluation-still-changes')
        w.step_digest(op, [])
        return []

    def check_job(self, w, rec):
        # (2) never the same message twice in a row
        items = w.mock.Comment.items
        by_pr = {}
        for c in items:
            by_pr.setdefault(c.pull_request_id, []).append(c)
        for pid, cs in by_pr.items():
            for x, y in zip(cs, cs[1:]):
                if x.user['username'] == ROBOT and \
                        y.user['username'] == ROBOT and \
                        x.content['raw'] == y.content['raw'] and \
                        any(n['pr'] == pid for n in rec['new_comments']):
                    raise Violation(
                        'C10', 'C10:same-message-twice:%s' % msg_title(
                            x.content['raw'])[:30],
                        'PR #%d: the robot posted the same message twice '
                        'in a row: %r' % (pid, msg_title(x.content['raw'])),
                        {})
        # (3) a command comment is executed at most once
        if rec['status'] in COMMAND_STATUSES:
            w.probe('command-executed')
            nbefore = rec['ncomments_before']
            cands = []
            # comments as they were when the job started: creation order
            # is list order and jobs only append
            before = items[:nbefore] if len(items) >= nbefore else items
            by_pr0 = {}
            for c in before:
                by_pr0.setdefault(c.pull_request_id, []).append(c)
            for pid, cs in by_pr0.items():
                pc = pending_command(cs)
                if not pc:
                    continue
                exp = COMMANDS[pc[1]]
                exp = exp if isinstance(exp, tuple) else (exp,)
                if rec['status'] in exp:
                    cands.append((pid, pc))
            if len(cands) > 1 and rec['job'].startswith('pr:'):
                jid = int(rec['job'].split(':')[1])
                narrowed = [c for c in cands if c[0] == jid]
                cands = narrowed or cands
            if len(cands) == 1:
                pid, (cobj, kw) = cands[0]
                n = self.executions.get(id(cobj), 0) + 1
                self.executions[id(cobj)] = n
                if n > 1:
                    raise Violation(
                        'C10', 'C10:command-executed-twice:%s:%s' % (
                            kw, rec['status']),
                        'the comment %r on PR #%d was executed %d times '
                        '(job %s ended %s again)' % (
                            cobj.content['raw'], pid, n, rec['job'],
                            rec['status']),
                        {'pr': pid, 'comments': [
                            (c.user['username'],
                             msg_title(c.content['raw'])[:40])
                            for c in by_pr0[pid]]})

    def nontrivial(self, w):
        return w.stats['probes'].get('repeat-probe', 0) > 0


def _diff(a, b):
    out = {}
    for k in ('refs', 'prs', 'comments'):
        if a[k] != b[k]:
            if k == 'refs':
                out[k] = {r: [a[k].get(r), b[k].get(r)]
                          for r in set(a[k]) | set(b[k])
                          if a[k].get(r) != b[k].get(r)}
            elif k == 'comments':
                out[k] = {'only_first': [
                    (c[0], c[1], msg_title(c[2])[:40]) for c in a[k]
                    if c not in b[k]][:4],
                    'only_second': [
                    (c[0], c[1], msg_title(c[2])[:40]) for c in b[k]
                    if c not in a[k]][:4]}
            else:
                out[k] = [x for x in a[k] if x not in b[k]][:3] + \
                    [x for x in b[k] if x not in a[k]][:3]
    return out
