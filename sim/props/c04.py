"""C04 - the review gate lets a pull request through exactly when approvals
suffice (E5 reviews engine)."""
from ..core import Violation
from .. import e5_reviews as R
from .c07 import E5Reviews


def check_c04(sess, st, res, cfg):
    if res['outcome'] != 'ok' or res['gate'] is None:
        return None
    author = 'alice'
    # options as the evaluation saw them (comment options incl. command
    # line defaults) plus the per-author settings
    opts = dict(res['settings'])
    if any(v not in (True, False, None) and k != 'after_pull_request'
           for k, v in opts.items()):
        # `option=value` on a boolean option: the statement is silent
        sess.probe('non-boolean-option-value(unspecified)')
        return None
    # where the comment grammar is specified (DESIGN.md A.3) the options
    # are those the comments say, not those the real parser produced: an
    # option that was declared but not applied must show at the gate too
    blocked, applied, unspec = R.ref_options(
        st['comments'], author, cfg['settings'].get('admins', []),
        sess.options, sess.commands, sess.registry)
    if not unspec and not blocked:
        ref = {k: False for k in opts}
        for k in cfg.get('cmd_line_options', []):
            ref[k] = True
        for k, v in applied.items():
            ref[k] = v if k == 'after_pull_request' else True
        opts = ref
        sess.probe('options-from-the-comments')
    per_author = cfg['settings'].get('pr_author_options', {}).get(author, [])
    for k in per_author:
        opts[k] = True
    want = R.ref_gate(cfg, opts, author, st['approvals'], st['participants'],
                      st['changes'])
    got = res['gate']
    sess.probe('gate:%s' % want)
    if want == 'unspecified':
        return None
    if res.get('host_failed'):
        sess.probe('host-error-during-gate')
        if got == 'pass' and want != 'pass':
            return Violation(
                'C04', 'C04:passed-on-host-error',
                'the review gate passed although %s failed' %
                res['host_failed'], {})
        return None
    if want == 'unspecified':
        return None
    if any(v not in (True, False, None) and k != 'after_pull_request'
           for k, v in opts.items()):
        sess.probe('non-boolean-option-value(unspecified)')
        return None
    if got != want:
        key = 'C04:gate-%s-should-%s' % (got, want)
        return Violation(
            'C04', key,
            'review gate %s, reference says %s: settings %s, active options '
            '%s, author %s, approvals %s, participants %s, change requests '
            '%s' % (got, want, {k: v for k, v in cfg['settings'].items()
                                if k != 'admins'},
                    sorted(k for k, v in opts.items() if v), author,
                    st['approvals'], st['participants'], st['changes']), {})
    return None


class C04Base(E5Reviews):
    ID = 'C04'
    RULE = ('one evaluation = one seeded history of reviews (approve, '
            'request changes, dismiss, comment-review) and option comments '
            'over a 5-user universe under drawn settings '
            '(required_peer 0-3, required_leader 0-2, need_author on/off, '
            'leader sets, per-author and command-line bypasses); after every '
            'op the real handle_comments + check_approvals run on a fresh '
            'job; distinct = different (op, outcome, gate, settings) step '
            'digests')
    ASSUMPTIONS = ['reference predicate = DESIGN.md A.2, three-valued; '
                   'options are those the comments declare where the '
                   'grammar is specified (DESIGN.md A.3), else those the '
                   'real handle_comments produced, plus per-author settings']

    def checks(self):
        return [check_c04]


from .taps import TapMixin, ReviewTap  # noqa: E402


class C04(TapMixin, C04Base):
    TAP_CLASS = ReviewTap
