"""C07 - only the right people can switch options on through comments (E5
reviews engine)."""
import random

from ..core import Violation, derive_seed, digest
from .. import e5_reviews as R

BLOCKS = ('UnknownCommand', 'NotEnoughCredentials', 'NotAuthor',
          'IncorrectCommandSyntax')


def check_c07(sess, st, res, cfg):
    """Compare the real outcome with the reference comment model."""
    author = 'alice'
    admins = cfg['settings'].get('admins', [])
    blocked, applied, unspec = R.ref_options(
        st['comments'], author, admins, sess.options, sess.commands,
        sess.registry)
    # whatever the shape of the comments (also those the grammar does not
    # specify): a privileged option is on only if an admin who is not the
    # author named it in a comment (or the command line set it), an
    # author-only option only if the author named it
    if res.get('settings'):
        defaults0 = set(cfg.get('cmd_line_options', []))
        for k, real in res['settings'].items():
            if k == 'after_pull_request' or not real or k in defaults0:
                continue
            if k not in sess.registry:
                continue
            if k in R.PRIVILEGED and not any(
                    by in admins and by != author and k in text
                    for (by, text) in st['comments']):
                return Violation(
                    'C07', 'C07:option-switched-on:privileged:%s:'
                    'no-entitled-comment-names-it' % k,
                    'option %s is active although no comment of an admin '
                    'other than the author names it (admins %s, author %s, '
                    'comments %r)' % (k, admins, author, st['comments']), {})
            if k in R.AUTHORED and not any(
                    by == author and k in text
                    for (by, text) in st['comments']):
                return Violation(
                    'C07', 'C07:option-switched-on:authored:%s:'
                    'no-comment-of-the-author-names-it' % k,
                    'option %s is active although no comment of the author '
                    'names it (author %s, comments %r)' % (
                        k, author, st['comments']), {})
    if unspec:
        sess.probe('unspecified-shape')
        return None
    out = res['outcome']
    if blocked:
        sess.probe('ref-blocked:' + blocked)
        if out != blocked:
            return Violation(
                'C07', 'C07:not-blocked:%s:got-%s' % (blocked, out),
                'the comments %r must block the pull request with %s; the '
                'evaluation ended %s' % (st['comments'], blocked, out), {})
        return None
    pending = R.ref_pending_command(st['comments'], sess.options,
                                    sess.commands)
    if pending == 'unspecified':
        return None
    if out in BLOCKS:
        # not forbidden by the statement (every clause is "only if"):
        # counted as an observation
        sess.probe('blocked-although-every-keyword-is-valid(observation)')
        return None
    if pending:
        sess.probe('command-pending')
        exp = R.COMMAND_OUTCOME.get(pending)
        if exp and out != exp:
            return Violation(
                'C07', 'C07:command-outcome:%s' % pending,
                'pending command %s: evaluation ended %s' % (pending, out),
                {})
        return None
    if out != 'ok':
        return None
    sess.probe('options-compared')
    defaults = set(cfg.get('cmd_line_options', []))
    for k in sess.options:
        real = res['settings'][k]
        want = applied.get(k)
        if k == 'after_pull_request':
            if set(real) != set(want or set()):
                return Violation(
                    'C07', 'C07:option-mismatch:%s' % k,
                    'after_pull_request is %r, comments say %r' % (
                        real, want), {})
            continue
        on = bool(real)
        should = bool(want) or k in defaults
        if on and not should:
            by = [(b, t) for (b, t) in st['comments'] if k in t]
            return Violation(
                'C07', 'C07:option-switched-on:%s:%s' % (
                    'privileged' if sess.registry[k].privileged else (
                        'authored' if sess.registry[k].authored else 'plain'),
                    k),
                'option %s is active although no entitled comment sets it '
                '(admins %s, author %s; comments naming it: %r)' % (
                    k, admins, author, by), {})
        if should and not on:
            sess.probe('entitled-option-not-applied(observation)')
            continue
        if on:
            sess.probe('option-active:' + (
                'privileged' if sess.registry[k].privileged else 'plain'))
    return None


def run_history(cfg, ops, scratch, checks):
    sess = R.Session(cfg, scratch)
    v = None
    for op in ops:
        sess.apply(op)
        st = sess.state()
        res = sess.evaluate()
        sess.trace.append(digest([op, res['outcome'], res['gate'],
                                  sorted((res['settings'] or {}).items(),
                                         key=str)]))
        for chk in checks:
            v = chk(sess, st, res, cfg)
            if v:
                return v, sess
    return None, sess


class E5Reviews:
    """Shared batch driver of C04 and C07."""
    ENGINE = 'e5'
    LEVEL = 'exploration'
    RUN_TIMEOUT = 300
    BUDGET = {'quick': 40, 'thorough': 600}
    BATCH = {'quick': 400, 'thorough': 1500}
    MIN_RUNS = 400
    MIN_WALL = 120
    REAL = ['bert_e.workflow.gitwaterflow.handle_comments / check_approvals',
            'bert_e.reactor.Reactor and the live option/command registry',
            'bert_e.workflow.gitwaterflow.utils bypass helpers',
            'bert_e.settings (loading + validation)', 'PullRequestJob',
            'bert_e.git_host.mock pull request (participants, approvals, '
            'change requests, comments)']
    STUBBED = ['git (a stub that records that a command wanted it)',
               'everything after the review gate']

    def checks(self):
        raise NotImplementedError

    def tasks(self, base_seed, tier):
        i = 0
        while True:
            yield {'property': self.ID, 'tier': tier, 'mode': 'explore',
                   'seed': derive_seed(base_seed, self.ID, 'e5', i),
                   'batch': self.BATCH[tier], 'name': '%s#%d' % (self.ID, i),
                   'hang_s': 280}
            i += 1

    def gen(self, rng):
        opts, cmds = R.live_registry()
        cfg = R.gen_config(rng)
        return cfg, R.gen_history(rng, opts, cmds)

    def run(self, task):
        R._setup(task['scratch'])
        import bert_e.workflow.gitwaterflow  # noqa: F401
        if task.get('mode') == 'replay':
            v, sess = run_history(task['config'], task['ops'],
                                  task['scratch'], self.checks())
            es = task.get('engine_state') or {}
            if v is None and es.get('batch_seed') is not None:
                # the violation needed what earlier histories of the same
                # process left behind (one Bert-E process serves many pull
                # requests): replay the batch up to that history
                rng0 = random.Random(es['batch_seed'])
                for i in range(es['index']):
                    rng = random.Random(rng0.randrange(2 ** 48))
                    cfg_i, ops_i = self.gen(rng)
                    run_history(cfg_i, ops_i, task['scratch'], self.checks())
                v, sess = run_history(task['config'], task['ops'],
                                      task['scratch'], self.checks())
            return {'property': self.ID, 'seed': task['seed'],
                    'config': task['config'], 'ops': task['ops'], 'runs': 1,
                    'violations': [v.as_dict()] if v else [],
                    'stats': {'probes': sess.probes, 'faults': {}},
                    'trace_digest': digest(sess.trace)}
        rng0 = random.Random(task['seed'])
        stats = {'jobs': 0, 'ops': 0, 'faults': {}, 'probes': {}}
        nontrivial = set()
        viol, samples, trace = [], [], []
        out = (None, [], task['seed'])
        runs = 0
        for i in range(task.get('batch', 300)):
            seed = rng0.randrange(2 ** 48)
            rng = random.Random(seed)
            cfg, ops = self.gen(rng)
            v, sess = run_history(cfg, ops, task['scratch'], self.checks())
            runs += 1
            stats['ops'] += len(ops)
            stats['jobs'] += len(sess.trace)
            for k, n in sess.probes.items():
                stats['probes'][k] = stats['probes'].get(k, 0) + n
            for d in sess.trace:
                nontrivial.add(d)
            trace.append(digest(sess.trace))
            if len(samples) < 2:
                samples.append({'seed': seed, 'config': cfg, 'ops': ops})
            if v is not None:
                viol.append(v.as_dict())
                out = (cfg, ops, seed)
                engine_state = {'batch_seed': task['seed'], 'index': i}
                break
        res = {'property': self.ID, 'seed': out[2], 'config': out[0],
               'ops': out[1], 'violations': viol, 'stats': stats,
               'runs': runs, 'states': [], 'transitions': [],
               'nontrivial_digests': sorted(nontrivial),
               'nontrivial_runs': runs, 'samples': samples,
               'trace_digest': digest(trace), 'sim_seconds': 0, 'extra': {}}
        if viol:
            res['engine_state'] = engine_state
        if task.get('want_trace'):
            res['trace'] = trace
        return res


class C07Base(E5Reviews):
    ID = 'C07'
    RULE = ('one evaluation = one seeded history of comments (option/'
            'command grammar from the live registry, 3 syntaxes, separators, '
            'noise, glued/odd shapes) and reviews by author / admin / '
            'admin-author / others / robot; after every op the real '
            'handle_comments runs on a fresh job; distinct = different '
            '(op, outcome, settings) step digests')
    ASSUMPTIONS = ['reference grammar = DESIGN.md A.3; shapes on which the '
                   'documentation is silent are generated but classified '
                   'unspecified (counted in probes)']

    def checks(self):
        return [check_c07]


from .taps import TapMixin, ReviewTapC07  # noqa: E402


class C07(TapMixin, C07Base):
    TAP_CLASS = ReviewTapC07
