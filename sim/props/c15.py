"""C15 - reset never silently discards manual work and only touches its own
pull request."""
from .. import ops
from ..core import Violation
from ..models import layout_from_refs
from ..world import ROBOT, DEST_PREFIXES
from .base import E1Prop

GATES = ('BuildNotStarted', 'BuildInProgress', 'BuildFailed',
         'ApprovalRequired', 'Queued')


class C15(E1Prop):
    ID = 'C15'
    PROFILE = {'p_queue': 0.6, 'p_stab': 0.25, 'p_hotfix': 0.1,
               'ndev': [2, 2, 3, 3, 4]}
    WEIGHTS = {'open_pr': 5, 'ci': 1, 'ci_green_all': 2, 'deliver': 6,
               'deliver_all': 4, 'api': 0.2, 'commit': 3, 'comment': 0,
               'wcommit': 5, 'restart': 0.1, 'amend': 2, 'rebase': 2,
               'reset_src': 1.5, 'merge_dst': 1, 'decline': 0.1,
               'delete_comment': 0, 'approve': 0.2, 'tag': 0,
               'delete_src': 0}
    GEN_KW = {'ci_green_bias': 0.8, 'max_prs': 3, 'api_jobs': ['eval_pr']}
    NOPS = (10, 24)
    EXPECTED_PROBES = ['reset-executed', 'reset-refused-with-manual-work',
                      'force-reset-discarded-manual-work', 'rebuilt-after-reset']

    def begin(self, w, rng):
        super().begin(w, rng)
        self.script = []
        self.after_reset = {}   # pr id -> True: next evaluation must rebuild

    def next_op(self, w, rng, step, nsteps):
        if self.script:
            return self.script.pop(0)
        if step >= 4 and rng.random() < 0.22:
            p = self.gen.pick_pr(w)
            if p is not None:
                cmd = rng.choice(['reset', 'reset', 'reset', 'force_reset'])
                self.script = [
                    {'op': 'eval', 'p': p, 'dt': 1},
                ]
                if rng.random() < 0.6:
                    self.script.append({
                        'op': 'wcommit', 'p': p, 'vi': rng.randrange(3),
                        'kind': rng.choice(['plain', 'plain', 'merge']),
                        'actor': rng.choice([None, 'carol']), 'dt': 5})
                if rng.random() < 0.4:
                    self.script.append({'op': rng.choice(
                        ['amend', 'rebase', 'commit', 'reset_src']), 'p': p,
                        'kind': 'new', 'dt': 5})
                self.script += [
                    {'op': 'comment', 'p': p, 'actor': rng.choice(
                        ['alice', 'bob', 'carol']),
                     'text': '@%s %s' % (ROBOT, cmd), 'dt': 5},
                    {'op': 'eval', 'p': p, 'dt': 1},
                    {'op': 'eval', 'p': p, 'dt': 1}]
                return self.script.pop(0)
        return self.gen.next(w)

    def manual_work(self, w, pr, refs):
        """Manual commits still held by an integration branch of pr:
        reachable from the w/ tip, not in its destination."""
        out = []
        lay = layout_from_refs(refs)
        for mc in getattr(w, 'manual_commits', []):
            if mc['pr'] != pr['id']:
                continue
            b = mc['branch']
            if b not in refs:
                continue
            if not w.is_ancestor(mc['sha'], refs[b]):
                continue
            ver = b[2:-len(pr['src']) - 1]
            dst = None
            for t in lay.targets(pr['dst']) or []:
                if t.split('/', 1)[1] == ver:
                    dst = t
            if dst and dst in refs and w.is_ancestor(mc['sha'], refs[dst]):
                continue
            out.append(mc)
        return out

    def check_job(self, w, rec):
        status = rec['status']
        before, after = rec['refs_before'], rec['refs_after']
        # which PR does this job evaluate?
        pid = None
        if rec['job'].startswith('pr:'):
            pid = int(rec['job'].split(':')[1])
        table = {p['id']: p for p in w.pr_table()}
        if pid in table and table[pid]['author'] == ROBOT:
            import re
            m = re.search(r'PR#(\d+) ', table[pid]['title'])
            pid = int(m.group(1)) if m else None
        if status in ('ResetComplete', 'LossyResetWarning'):
            w.probe('reset-executed')
            if pid is None or pid not in table:
                return
            pr = table[pid]
            # the command that was executed: newest reset/force_reset
            cmd = None
            for c in reversed(w.comments(pid)):
                if c['by'] == ROBOT:
                    continue
                t = c['text'].strip()
                if t.endswith('force_reset'):
                    cmd = 'force_reset'
                    break
                if t.endswith('reset'):
                    cmd = 'reset'
                    break
            manual = self.manual_work(w, pr, before)
            changed = {r: (before.get(r), after.get(r))
                       for r in set(before) | set(after)
                       if before.get(r) != after.get(r)}
            declined = [i for i, st in rec['prs_after'].items()
                        if st == 'DECLINED' and
                        rec['prs_before'].get(i) != 'DECLINED']
            if manual and cmd == 'reset':
                w.probe('reset-refused-with-manual-work'
                        if status == 'LossyResetWarning' else
                        'reset-accepted-with-manual-work')
                if status != 'LossyResetWarning' or changed or declined:
                    raise Violation(
                        'C15', 'C15:manual-work-discarded:%s' % status,
                        'PR #%d: integration branch %s holds the manual '
                        'commit %s, yet `reset` ended %s, changed %s and '
                        'declined %s' % (pid, manual[0]['branch'],
                                         manual[0]['sha'][:10], status,
                                         sorted(changed), declined),
                        {'manual': manual})
            if manual and cmd == 'force_reset' and status == 'ResetComplete':
                w.probe('force-reset-discarded-manual-work')
            if not manual and status == 'LossyResetWarning':
                w.probe('refusal-without-manual-work(observation)')
            # scope: only this PR's w/ branches, only its integration PRs
            own = lambda r: r.startswith('w/') and r.endswith('/' + pr['src'])
            foreign = sorted(r for r in changed if not own(r))
            if foreign:
                raise Violation(
                    'C15', 'C15:reset-touched-other-refs',
                    '%s of PR #%d changed refs that are not its integration '
                    'branches: %s' % (cmd, pid, foreign), {})
            for i in declined:
                p = table.get(i)
                if p is None or p['author'] != ROBOT or \
                        ('PR#%d ' % pid) not in p['title']:
                    raise Violation(
                        'C15', 'C15:reset-declined-foreign-pr',
                        '%s of PR #%d declined PR #%d (%s)' % (
                            cmd, pid, i, p and p['title']), {})
            if status == 'ResetComplete':
                self.after_reset[pid] = True
            return
        # the next evaluation rebuilds the integration branches
        if pid in self.after_reset and status in GATES and pid in table:
            pr = table[pid]
            del self.after_reset[pid]
            lay = layout_from_refs(after)
            tg = lay.targets(pr['dst']) or []
            missing = []
            for t in tg[1:]:
                name = 'w/%s/%s' % (t.split('/', 1)[1], pr['src'])
                if name not in after:
                    missing.append(name)
            if missing and lay.well_formed() is None:
                raise Violation(
                    'C15', 'C15:not-rebuilt-after-reset',
                    'PR #%d: the evaluation after the reset ended %s but '
                    'the integration branches %s do not exist' % (
                        pid, status, missing), {})
            if tg[1:]:
                w.probe('rebuilt-after-reset')

    def nontrivial(self, w):
        return w.stats['probes'].get('reset-executed', 0) > 0
