"""C15 - reset never silently discards manual work and only touches its own
pull request."""
from .. import ops
from ..core import Violation
from ..models import layout_from_refs
from ..world import ROBOT, DEST_PREFIXES
from .base import E1Prop

GATES = ('BuildNotStarted', 'BuildInProgress', 'BuildFailed',
         'ApprovalRequired', 'Queued')


class C15(E1Prop):
    ID = 'C15'
    PROFILE = {'p_queue': 0.6, 'p_stab': 0.25, 'p_hotfix': 0.1,
               'ndev': [2, 2, 3, 3, 4]}
    WEIGHTS = {'open_pr': 5, 'ci': 1, 'ci_green_all': 2, 'deliver': 6,
               'deliver_all': 4, 'api': 0.2, 'commit': 3, 'comment': 0,
               'wcommit': 5, 'restart': 0.1, 'amend': 2, 'rebase': 2,
               'reset_src': 1.5, 'merge_dst': 1, 'decline': 0.1,
               'delete_comment': 0, 'approve': 0.2, 'tag': 0,
               'delete_src': 0}
    GEN_KW = {'ci_green_bias': 0.8, 'max_prs': 3, 'api_jobs': ['eval_pr']}
    NOPS = (10, 24)
    EXPECTED_PROBES = ['reset-executed', 'reset-refused-with-manual-work',
                      'force-reset-discarded-manual-work', 'rebuilt-after-reset']

    def begin(self, w, rng):
        super().begin(w, rng)
        self.script = []
        self.after_reset = {}   # pr id -> True: next evaluation must rebuild
        self.nfp = 0

    def gen_config(self, rng, tier):
        self.tier = tier
        return super().gen_config(rng, tier)

    def next_op(self, w, rng, step, nsteps):
        if self.script:
            return self.script.pop(0)
        if step >= 4 and rng.random() < 0.22:
            p = self.gen.pick_pr(w)
            if p is not None:
                cmd = rng.choice(['reset', 'reset', 'reset', 'force_reset'])
                self.script = [
                    {'op': 'eval', 'p': p, 'dt': 1},
                ]
                if rng.random() < 0.3:
                    # the author adds a commit and merges the branch into an
                    # integration branch by hand (a true merge commit with a
                    # resolution of their own) before the robot looks
                    self.script.append({'op': 'commit', 'p': p,
                                        'kind': 'new', 'dt': 5})
                    self.script.append({
                        'op': 'wcommit', 'p': p, 'vi': rng.randrange(3),
                        'kind': 'merge', 'actor': None, 'dt': 5})
                elif rng.random() < 0.6:
                    self.script.append({
                        'op': 'wcommit', 'p': p, 'vi': rng.randrange(3),
                        'kind': rng.choice(['plain', 'plain', 'merge']),
                        'actor': rng.choice([None, 'carol']), 'dt': 5})
                if rng.random() < 0.4:
                    self.script.append({'op': rng.choice(
                        ['amend', 'rebase', 'commit', 'reset_src']), 'p': p,
                        'kind': 'new', 'dt': 5})
                self.script += [
                    {'op': 'comment', 'p': p, 'actor': rng.choice(
                        ['alice', 'bob', 'carol']),
                     'text': '@%s %s' % (ROBOT, cmd), 'dt': 5},
                    {'op': 'eval', 'p': p, 'dt': 1},
                    {'op': 'eval', 'p': p, 'dt': 1}]
                if self.nfp < (2 if getattr(self, 'tier', 'quick') == 'quick'
                               else 6) and rng.random() < 0.5:
                    # the job that executes the command is also tried with
                    # one of its git commands failing
                    self.nfp += 1
                    self.script[-2]['faultprobe'] = {
                        'pick': rng.randrange(10 ** 9),
                        'nmax': 6 if self.tier == 'quick' else 24}
                return self.script.pop(0)
        return self.gen.next(w)

    def apply(self, w, op):
        fp = op.get('faultprobe')
        if not fp:
            return ops.apply_op(w, op)
        import random

        def clean(w_):
            recs = ops.op_eval(w_, dict(op)) or []
            return recs[0]['ncmd'] if recs else 0
        if 'plans' not in fp:
            ncmd = w.fork_variant(clean)
            r = random.Random(fp['pick'])
            # the commands of clone() come first: half of the sample there
            head = list(range(min(ncmd, 12)))
            tail = list(range(len(head), ncmd))
            k = fp['nmax'] // 2
            ns = (r.sample(head, min(k, len(head))) +
                  r.sample(tail, min(fp['nmax'] - k, len(tail))))
            fp['plans'] = [{'kind': 'giterr', 'n': n} for n in sorted(ns)]
            # ... and with somebody creating a branch of their own right
            # before one of its git commands ("only touches its own PR")
            for n in sorted(r.sample(range(ncmd), min(3, ncmd))):
                fp['plans'].append({
                    'kind': 'thirdparty', 'cmd': n, 'action': {
                        'do': 'create_branch',
                        'name': r.choice(['feature/tp-%d', 'bugfix/TP-%d',
                                          'user/dave/x-%d']) % r.randrange(
                                              1000),
                        'base': None}})
        for plan in list(fp['plans']):
            def run(w_, plan=plan):
                w_.on_job_done = lambda rec: self.check_job(w_, rec,
                                                            faulted=True)
                recs = ops.op_eval(w_, dict(op, plan=dict(plan))) or []
                refs = w_.refs()
                for rec in recs[:1]:
                    for tp in rec.get('third_party') or []:
                        if tp.get('sha') and refs.get(tp['name']) != \
                                tp['sha']:
                            raise Violation(
                                'C15', 'C15:reset-touched-other-refs:'
                                'third-party-branch',
                                'branch %s, created by somebody else while '
                                'job %s (%s) was running, is %s afterwards '
                                '(they left it at %s)' % (
                                    tp['name'], rec['job'], rec['status'],
                                    refs.get(tp['name']), tp['sha'][:10]),
                                {})
                return recs[0]['status'] if recs else None
            try:
                st = w.fork_variant(run)
            except Violation as v:
                fp['plans'] = [plan]
                v.detail['plan'] = plan
                raise
            w._count_fault('giterr' if plan['kind'] == 'giterr'
                           else 'thirdparty:create_branch@cmd')
            w.probe('reset-under-%s:%s' % (
                'git-fault' if plan['kind'] == 'giterr' else 'third-party',
                st))
        return ops.apply_op(w, op)

    def manual_work(self, w, pr, refs):
        """Manual commits still held by an integration branch of pr:
        reachable from the w/ tip, not in its destination."""
        out = []
        lay = layout_from_refs(refs)
        for mc in getattr(w, 'manual_commits', []):
            if mc['pr'] != pr['id']:
                continue
            b = mc['branch']
            if b not in refs:
                continue
            if not w.is_ancestor(mc['sha'], refs[b]):
                continue
            ver = b[2:-len(pr['src']) - 1]
            dst = None
            for t in lay.targets(pr['dst']) or []:
                if t.split('/', 1)[1] == ver:
                    dst = t
            if dst and dst in refs and w.is_ancestor(mc['sha'], refs[dst]):
                continue
            out.append(mc)
        return out

    def check_job(self, w, rec, faulted=False):
        status = rec['status']
        before, after = rec['refs_before'], rec['refs_after']
        # which PR does this job evaluate?
        pid = None
        if rec['job'].startswith('pr:'):
            pid = int(rec['job'].split(':')[1])
        table = {p['id']: p for p in w.pr_table()}
        if pid in table and table[pid]['author'] == ROBOT:
            import re
            m = re.search(r'PR#(\d+) ', table[pid]['title'])
            pid = int(m.group(1)) if m else None
        if status in ('ResetComplete', 'LossyResetWarning'):
            w.probe('reset-executed')
            if pid is None or pid not in table:
                return
            pr = table[pid]
            # the command that was executed: newest reset/force_reset
            cmd = None
            for c in reversed(w.comments(pid)):
                if c['by'] == ROBOT:
                    continue
                t = c['text'].strip()
                if t.endswith('force_reset'):
                    cmd = 'force_reset'
                    break
                if t.endswith('reset'):
                    cmd = 'reset'
                    break
            manual = self.manual_work(w, pr, before)
            changed = {r: (before.get(r), after.get(r))
                       for r in set(before) | set(after)
                       if before.get(r) != after.get(r)}
            declined = [i for i, st in rec['prs_after'].items()
                        if st == 'DECLINED' and
                        rec['prs_before'].get(i) != 'DECLINED']
            own_w = lambda r: r.startswith('w/') and \
                r.endswith('/' + pr['src'])
            if status == 'ResetComplete':
                # fault or not: "Reset complete" means the integration
                # branches are gone
                kept = sorted(r for r in before if own_w(r) and
                              after.get(r) == before[r])
                fc = str(rec.get('faulted_cmd') or '')
                if kept and faulted and fc and \
                        not fc.startswith('git push'):
                    # a failed local probe (`git rev-parse`, `git branch`)
                    # is read as "no such branch": outside the statement,
                    # counted
                    w.probe('reset-complete-with-a-branch-kept-after-a-'
                            'failed-probe(observation)')
                    kept = []
                if kept:
                    raise Violation(
                        'C15', 'C15:reset-complete-but-branches-remain',
                        'PR #%d: %s answered ResetComplete%s but %s are '
                        'still on the remote, untouched' % (
                            pid, cmd, ' (one git command failed once)'
                            if faulted else '', kept), {})
            if manual and cmd == 'reset' and faulted:
                # with a git command failing underneath, whatever the job
                # answers, the manual work must still be on the remote
                left = self.manual_work(w, pr, after)
                lost = [m for m in manual if m not in left]
                if lost:
                    raise Violation(
                        'C15', 'C15:manual-work-discarded:%s:under-git-fault'
                        % status,
                        'PR #%d: integration branch %s held the manual '
                        'commit %s; with one git command failing `reset` '
                        'ended %s and the commit is gone (changed %s)' % (
                            pid, lost[0]['branch'], lost[0]['sha'][:10],
                            status, sorted(changed)), {'manual': lost})
                return
            if faulted:
                return
            if manual and cmd == 'reset':
                w.probe('reset-refused-with-manual-work'
                        if status == 'LossyResetWarning' else
                        'reset-accepted-with-manual-work')
                if status != 'LossyResetWarning' or changed or declined:
                    raise Violation(
                        'C15', 'C15:manual-work-discarded:%s' % status,
                        'PR #%d: integration branch %s holds the manual '
                        'commit %s, yet `reset` ended %s, changed %s and '
                        'declined %s' % (pid, manual[0]['branch'],
                                         manual[0]['sha'][:10], status,
                                         sorted(changed), declined),
                        {'manual': manual})
            if manual and cmd == 'force_reset' and status == 'ResetComplete':
                w.probe('force-reset-discarded-manual-work')
            if not manual and status == 'LossyResetWarning':
                w.probe('refusal-without-manual-work(observation)')
            # scope: only this PR's w/ branches, only its integration PRs
            own = lambda r: r.startswith('w/') and r.endswith('/' + pr['src'])
            foreign = sorted(r for r in changed if not own(r))
            if foreign:
                raise Violation(
                    'C15', 'C15:reset-touched-other-refs',
                    '%s of PR #%d changed refs that are not its integration '
                    'branches: %s' % (cmd, pid, foreign), {})
            for i in declined:
                p = table.get(i)
                if p is None or p['author'] != ROBOT or \
                        ('PR#%d ' % pid) not in p['title']:
                    raise Violation(
                        'C15', 'C15:reset-declined-foreign-pr',
                        '%s of PR #%d declined PR #%d (%s)' % (
                            cmd, pid, i, p and p['title']), {})
            if status == 'ResetComplete':
                self.after_reset[pid] = True
            return
        # the next evaluation rebuilds the integration branches
        if pid in self.after_reset and status in GATES and pid in table:
            pr = table[pid]
            del self.after_reset[pid]
            lay = layout_from_refs(after)
            tg = lay.targets(pr['dst']) or []
            missing = []
            for t in tg[1:]:
                name = 'w/%s/%s' % (t.split('/', 1)[1], pr['src'])
                if name not in after:
                    missing.append(name)
            if missing and lay.well_formed() is None:
                raise Violation(
                    'C15', 'C15:not-rebuilt-after-reset',
                    'PR #%d: the evaluation after the reset ended %s but '
                    'the integration branches %s do not exist' % (
                        pid, status, missing), {})
            if tg[1:]:
                w.probe('rebuilt-after-reset')

    def nontrivial(self, w):
        return w.stats['probes'].get('reset-executed', 0) > 0
