"""C20 - branch and queue admin jobs keep the repository well-formed or do
nothing."""
import re

from .. import ops
from ..core import Violation
from ..models import layout_from_refs, DEV_RE, STAB_RE, HOTFIX_RE
from ..world import DEST_PREFIXES, ROBOT, ver_key
from .base import E1Prop
from .c01 import chain_failures

REFUSALS = ('JobFailure', 'NothingToDo', 'NotMyJob')


def queued_prs(refs):
    """PR ids that have a queue-integration branch, with their versions."""
    out = {}
    for r in refs:
        m = re.match(r'^q/w/(\d+)/([^/]+)/', r)
        if m:
            out.setdefault(int(m.group(1)), []).append(m.group(2))
    return out


class C20(E1Prop):
    ID = 'C20'
    PROFILE = {'p_queue': 0.75, 'p_stab': 0.35, 'p_hotfix': 0.4,
               'ndev': [1, 2, 2, 3, 3]}
    WEIGHTS = {'open_pr': 5, 'ci': 3, 'ci_green_all': 6, 'deliver': 8,
               'deliver_all': 4, 'api': 9, 'commit': 0.8, 'comment': 0.1,
               'wcommit': 0.0, 'restart': 0.1, 'tag': 0.6}
    GEN_KW = {'ci_green_bias': 0.9,
              'api_jobs': ['create_branch', 'create_branch', 'delete_branch',
                           'delete_branch', 'rebuild_queues',
                           'delete_queues', 'force_merge']}
    NOPS = (8, 20)
    EXPECTED_PROBES = ['create-branch-success', 'delete-branch-success',
                      'rebuild-with-queued-prs', 'refusal',
                      'admin-fault-variant']

    def gen_config(self, rng, tier):
        self.tier = tier
        return super().gen_config(rng, tier)

    def begin(self, w, rng):
        super().begin(w, rng)
        self.queue_entry = []   # PR ids in the order they were queued
        self.nfp = 0

    def next_op(self, w, rng, step, nsteps):
        if step == 0:
            self.script = []
            if w.use_queue and rng.random() < 0.35:
                # story: several PRs enter the queue in an order of their
                # own, then an admin job is issued
                dests = ops.dest_branches(w.cfg)
                n = rng.choice([2, 2, 3])
                seq = []
                for i in range(n):
                    seq.append({'op': 'open_pr', 'actor': rng.choice(
                        ['alice', 'bob']), 'src': 'bugfix/TEST-%d' % (
                        700 + i), 'dst': rng.choice(dests), 'kind': 'new'})
                for i in range(n):
                    seq.append({'op': 'eval', 'p': i})
                seq.append({'op': 'ci_green_all', 'which': ['src', 'w']})
                order = list(range(n))
                rng.shuffle(order)
                for i in order:
                    seq.append({'op': 'eval', 'p': i})
                job = rng.choice(['rebuild_queues', 'rebuild_queues',
                                  'create_branch', 'delete_queues'])
                api = {'op': 'api', 'job': job}
                if job == 'create_branch':
                    api['kwargs'] = {'branch': 'development/%d.%d' % (
                        rng.choice([11, 12, 3]), rng.choice([0, 1]))}
                    majors = [d.split('/')[1] for d in dests
                              if d.startswith('development/') and
                              '.' not in d.split('/')[1]]
                    if majors and rng.random() < 0.6:
                        # a minor of a major that has its major-only branch
                        # (development/M sorts after every development/M.n)
                        api['kwargs'] = {'branch': 'development/%s.%d' % (
                            rng.choice(majors), rng.choice([1, 4, 7, 9]))}
                seq.append(api)
                seq.append({'op': 'deliver_all'})
                for o in seq:
                    o['dt'] = rng.choice([1, 5, 30])
                self.script = seq
            elif w.cfg.get('hotfixes') and w.use_queue and \
                    rng.random() < 0.4:
                # story: two hotfix branches; a PR went through the queue of
                # the older one (its queue branch stays behind, empty), a PR
                # is queued on the newer one, which an admin then wants to
                # archive
                h1 = w.cfg['hotfixes'][0]
                a, b, c = [int(x) for x in h1.split('.')]
                h2 = '%d.%d.%d' % (a, b, c + 2)
                devs = [d for d in ops.dest_branches(w.cfg)
                        if d.startswith('development/')]
                seq = [{'op': 'tag', 'on': devs[0], 'name': h2 + '.0'},
                       {'op': 'api', 'job': 'create_branch',
                        'kwargs': {'branch': 'hotfix/' + h2}},
                       {'op': 'open_pr', 'actor': 'alice',
                        'src': 'bugfix/TEST-760', 'dst': 'hotfix/' + h1,
                        'kind': 'new'},
                       {'op': 'eval', 'p': 0},
                       {'op': 'ci_green_all', 'which': ['src', 'w']},
                       {'op': 'eval', 'p': 0},
                       {'op': 'ci_green_all', 'which': ['q']},
                       {'op': 'deliver_all'},
                       {'op': 'open_pr', 'actor': 'bob',
                        'src': 'bugfix/TEST-761', 'dst': 'hotfix/' + h2,
                        'kind': 'new'},
                       {'op': 'eval', 'p': 1},
                       {'op': 'ci_green_all', 'which': ['src', 'w']},
                       {'op': 'eval', 'p': 1},
                       {'op': 'api', 'job': 'delete_branch',
                        'kwargs': {'branch': 'hotfix/' + rng.choice(
                            [h2, h2, h1])}},
                       {'op': 'deliver_all'}]
                for o in seq:
                    o['dt'] = rng.choice([1, 5, 30])
                self.script = seq
            elif w.cfg.get('hotfixes') and rng.random() < 0.6:
                # story: a hotfix branch is archived, opened again, gets a
                # change, and is archived a second time
                hf = 'hotfix/' + w.cfg['hotfixes'][0]
                seq = [{'op': 'api', 'job': 'delete_branch',
                        'kwargs': {'branch': hf}},
                       {'op': 'api', 'job': 'create_branch',
                        'kwargs': {'branch': hf}},
                       {'op': 'open_pr', 'actor': 'alice',
                        'src': 'bugfix/TEST-750', 'dst': hf, 'kind': 'new'},
                       {'op': 'eval', 'p': 0},
                       {'op': 'ci_green_all', 'which': ['src', 'w']},
                       {'op': 'eval', 'p': 0},
                       {'op': 'ci_green_all', 'which': ['q']},
                       {'op': 'deliver_all'},
                       {'op': 'api', 'job': 'delete_branch',
                        'kwargs': {'branch': hf}},
                       {'op': 'deliver_all'}]
                for o in seq:
                    o['dt'] = rng.choice([1, 5, 30])
                self.script = seq
            elif rng.random() < 0.25:
                # story: a destination branch is archived and then asked
                # for again (never for a version that was archived)
                dests = [d for d in ops.dest_branches(w.cfg)
                         if not d.startswith('hotfix/')]
                d = rng.choice(dests)
                seq = [{'op': 'api', 'job': 'delete_branch',
                        'kwargs': {'branch': d}}]
                for i in range(rng.choice([0, 0, 1])):
                    seq.append({'op': 'tag', 'on': rng.choice(dests),
                                'name': rng.choice(['0.9.%d', '1.0.%d',
                                                    '4.3.%d']) % i})
                seq.append({'op': 'api', 'job': 'create_branch',
                            'kwargs': {'branch': d}})
                seq.append({'op': 'deliver_all'})
                for o in seq:
                    o['dt'] = rng.choice([1, 5, 30])
                self.script = seq
            elif rng.random() < 0.3:
                # story: a later development branch gets a change of its own
                # (pushed by hand), then a stabilization branch of an earlier
                # minor is asked for with that later tip - or a legitimate
                # commit - as its explicit branching point
                import re as _re
                devs = [d for d in ops.dest_branches(w.cfg)
                        if d.startswith('development/')]
                minors = [d for d in devs if '.' in d.split('/')[1] and
                          d.split('/')[1] not in w.cfg.get('stabs', {})]
                if len(devs) >= 2 and minors:
                    d = rng.choice(minors)
                    later = [x for x in devs if devs.index(x) > devs.index(d)]
                    ver = d.split('/')[1]
                    zs = [int(m.group(1)) for t in w.cfg.get('tags', [])
                          for m in [_re.match(r'^v?%s\.(\d+)(\.\d+)?$' %
                                              _re.escape(ver), t[0])] if m]
                    micro = max(zs + [-1]) + 1
                    if rng.random() < 0.2:
                        micro += 1
                    src = rng.choice(later) if later and \
                        rng.random() < 0.8 else d
                    seq = []
                    if later:
                        seq += [{'op': 'open_pr', 'actor': 'alice',
                                 'src': 'bugfix/TEST-770',
                                 'dst': rng.choice(later), 'kind': 'new'},
                                {'op': 'ff_dst', 'p': 0}]
                    seq += [{'op': 'api', 'job': 'create_branch',
                             'kwargs': {'branch': 'stabilization/%s.%d' % (
                                 ver, micro)},
                             'json': {'branch_from': src}},
                            {'op': 'deliver_all'}]
                    for o in seq:
                        o['dt'] = rng.choice([1, 5, 30])
                    self.script = seq
        if getattr(self, 'script', None):
            op = self.script.pop(0)
        else:
            op = self.gen.next(w)
        maxfp = 2 if getattr(self, 'tier', 'quick') == 'quick' else 5
        if op['op'] == 'api' and not op.get('queue_only') and \
                op.get('job') in ('delete_branch', 'create_branch') and \
                self.nfp < maxfp and rng.random() < 0.6:
            # the same admin job, also tried with the remote refusing one of
            # the refs it publishes / somebody publishing the tag first
            self.nfp += 1
            op = dict(op, op='faultprobe', pick=rng.randrange(10 ** 9),
                      nfaults=3 if maxfp == 2 else 0)
        return op

    # ------------------------------------------------------------------
    def apply(self, w, op):
        if op['op'] != 'faultprobe':
            return ops.apply_op(w, op)
        import random
        ev = {'k': 'api', 'job': op['job'], 'kwargs': op.get('kwargs') or {},
              'json': op.get('json') or {}}

        def clean(w_):
            recs = w_.deliver(dict(ev))
            return recs[0]['mut'] if recs else []
        if 'faults' not in op:
            mut = w.fork_variant(clean)
            space = []
            for m in mut:
                if m['kind'] != 'push':
                    continue
                for ref in sorted(m.get('changed') or {}):
                    if ref.startswith('tag:'):
                        space.append({'kind': 'reject', 'push': m['j'],
                                      'ref': 'refs/tags/*'})
                        space.append({
                            'kind': 'thirdparty', 'push': m['j'],
                            'action': {'do': 'push_tag', 'name': ref[4:]}})
                    else:
                        space.append({'kind': 'reject', 'push': m['j'],
                                      'ref': 'refs/heads/' + ref})
            r = random.Random(op['pick'])
            if op.get('nfaults') and len(space) > op['nfaults']:
                space = r.sample(space, op['nfaults'])
            op['faults'] = space
        for plan in list(op['faults']):
            def run(w_, plan=plan):
                f0 = dict(w_.stats['faults'])
                w_.on_job_done = None
                recs = w_.deliver(dict(ev), plan=dict(plan))
                for rec in recs[:1]:
                    self.check_job(w_, rec, faulted=True)
                return {'fired': bool(recs and recs[0].get('fired')),
                        'faults': {k: v - f0.get(k, 0)
                                   for k, v in w_.stats['faults'].items()
                                   if v - f0.get(k, 0)},
                        'status': recs[0]['status'] if recs else None}
            try:
                res = w.fork_variant(run)
            except Violation as v:
                op['faults'] = [plan]
                v.detail['fault'] = plan
                raise
            if res['fired']:
                w.probe('admin-fault-variant')
                w.probe('admin-fault:%s' % res['status'])
            for k, n in res['faults'].items():
                w.stats['faults'][k] = w.stats['faults'].get(k, 0) + n
        return ops.apply_op(w, dict(op, op='api'))

    def check_job(self, w, rec, faulted=False):
        before, after = rec['refs_before'], rec['refs_after']
        if rec['status'] == 'Queued':
            for r in after:
                m = re.match(r'^q/w/(\d+)/', r)
                if m and r not in before:
                    pid = int(m.group(1))
                    if pid in self.queue_entry:
                        self.queue_entry.remove(pid)
                    self.queue_entry.append(pid)
        if not rec['job'].startswith('api:'):
            return
        kind = rec['job'].split(':')[1]
        status = rec['status']
        ev = rec.get('event') or {}
        kwargs = ev.get('kwargs') or {}
        js = ev.get('json') or {}
        # (1) a refusal leaves refs and tags byte-identical
        if status in REFUSALS:
            w.probe('refusal')
            if faulted:
                # with the remote misbehaving, what must be untouched are
                # the destination branches and the tags (an empty q/<v>
                # branch dropped before the refusal is rebuilt on demand);
                # what a third party pushed meanwhile is not the job's doing
                theirs = set('tag:' + t['name']
                             for t in rec.get('third_party') or []
                             if t.get('do') == 'push_tag')
                if kind == 'delete_branch':
                    # the archive tag is published before the deletion on
                    # purpose: a refused deletion leaves the tag behind
                    new_tags = [r for r in after if r.startswith('tag:') and
                                r not in before and r not in theirs]
                    if new_tags:
                        w.probe('archive-tag-left-without-deletion')
                    theirs |= set(new_tags)
                before = {r: s for r, s in before.items()
                          if not r.startswith('q/') and r not in theirs}
                after = {r: s for r, s in after.items()
                         if not r.startswith('q/') and r not in theirs}
            if before != after:
                diff = {r: [before.get(r), after.get(r)]
                        for r in set(before) | set(after)
                        if before.get(r) != after.get(r)}
                raise Violation(
                    'C20', 'C20:refusal-changed-remote:%s:%s' % (kind,
                                                                 status),
                    'job %s ended %s but changed the remote: %s' % (
                        rec['job'], status, diff), {'diff': diff})
        if kind == 'create_branch':
            self.check_create(w, rec, kwargs.get('branch'), js)
        elif kind == 'delete_branch':
            self.check_delete(w, rec, kwargs.get('branch'))
        elif kind in ('rebuild_queues', 'delete_queues'):
            self.check_queue_job(w, rec, kind)

    # ------------------------------------------------------------------
    def check_create(self, w, rec, name, js):
        before, after = rec['refs_before'], rec['refs_after']
        created = name in after and name not in before
        other = {r for r in set(before) | set(after)
                 if before.get(r) != after.get(r) and r != name and
                 not r.startswith('q/')}
        if other:
            raise Violation(
                'C20', 'C20:create-branch-touched-other-refs',
                'create-branch %s changed %s' % (name, sorted(other)), {})
        if not created:
            return
        w.probe('create-branch-success')
        lay_before = layout_from_refs(before)
        if lay_before.well_formed() is None and \
                not chain_failures(w, before):
            lay = layout_from_refs(after)
            why = lay.well_formed()
            if why:
                raise Violation(
                    'C20', 'C20:create-branch-ill-formed',
                    'create-branch %s succeeded but the layout is now '
                    'ill-formed: %s' % (name, why), {})
            bad = chain_failures(w, after)
            if bad:
                raise Violation(
                    'C20', 'C20:create-branch-breaks-chain',
                    'after create-branch %s, %s is not contained in %s' % (
                        name, bad[0][0], bad[0][1]), {})
        version = name.split('/', 1)[1]
        if ('tag:' + version) in before:
            raise Violation(
                'C20', 'C20:create-branch-archived',
                'create-branch %s succeeded although the archive tag %s '
                'exists' % (name, version), {})
        m = DEV_RE.match(name)
        if m and w.use_queue and queued_prs(before):
            devs = [r for r in before if DEV_RE.match(r)]
            lay = layout_from_refs(list(before) + [name])
            order = lay.sorted_devs()
            if order and order[-1] != name:
                raise Violation(
                    'C20', 'C20:create-older-branch-with-queued-prs',
                    'create-branch %s (older than %s) succeeded while PRs '
                    '%s are queued' % (name, order[-1],
                                       sorted(queued_prs(before))), {})

    def check_delete(self, w, rec, name):
        before, after = rec['refs_before'], rec['refs_after']
        deleted = name in before and name not in after
        other = {r for r in set(before) | set(after)
                 if before.get(r) != after.get(r) and r != name and
                 not r.startswith('q/') and not r.startswith('tag:')}
        if other:
            raise Violation(
                'C20', 'C20:delete-branch-touched-other-refs',
                'delete-branch %s changed %s' % (name, sorted(other)), {})
        if not deleted:
            return
        w.probe('delete-branch-success')
        version = name.split('/', 1)[1]
        # queued PRs on that branch?
        qp = queued_prs(before)
        for pid, versions in qp.items():
            for v in versions:
                if v == version or (name.startswith('hotfix/') and
                                    v.startswith(version + '.')):
                    raise Violation(
                        'C20', 'C20:delete-branch-with-queued-prs',
                        'delete-branch %s succeeded while PR #%d is queued '
                        'on it' % (name, pid), {})
        if name.startswith('development/'):
            stabs = [r for r in before
                     if r.startswith('stabilization/%s.' % version)]
            if stabs:
                raise Violation(
                    'C20', 'C20:delete-dev-with-live-stabilization',
                    'delete-branch %s succeeded although %s exists' % (
                        name, stabs), {})
        tag = version + ('.archived_hotfix_branch'
                         if name.startswith('hotfix/') else '')
        if after.get('tag:' + tag) != before[name]:
            raise Violation(
                'C20', 'C20:delete-branch-no-archive-tag',
                'delete-branch %s succeeded but tag %s does not point at '
                'the deleted tip (%s vs %s)' % (
                    name, tag, after.get('tag:' + tag), before[name]), {})

    def check_queue_job(self, w, rec, kind):
        before, after = rec['refs_before'], rec['refs_after']
        status = rec['status']
        changed = {r for r in set(before) | set(after)
                   if before.get(r) != after.get(r)}
        bad = sorted(r for r in changed if not r.startswith('q/'))
        if bad:
            raise Violation(
                'C20', 'C20:%s-touched-non-queue-refs' % kind,
                '%s changed refs outside q/*: %s' % (kind, bad), {})
        if kind != 'rebuild_queues' or not w.use_queue:
            return
        qp = queued_prs(before)
        if status not in REFUSALS and status != 'JobSuccess' and qp:
            why = ''
            m = re.match(r'^stabilization/(\d+\.\d+\.\d+)$',
                         str(rec['details'] or ''))
            if status == 'CheckoutFailedException' and m and \
                    ('hotfix/' + m.group(1)) in before and \
                    not any(r.startswith('tag:%s.' % m.group(1))
                            for r in before):
                # a hotfix branch without any X.Y.Z.N tag: its queue is
                # named q/X.Y.Z, which reads as a stabilization queue
                why = ':hotfix-without-revision-tag'
            raise Violation(
                'C20', 'C20:rebuild-queues-crashed:%s%s' % (status, why),
                'rebuild-queues ended with %s (%s) instead of rebuilding: '
                'the %d queued pull requests %s were not re-submitted; '
                'q/* branches before: %s' % (
                    status, rec['details'], len(qp), sorted(qp),
                    sorted(r for r in before if r.startswith('q/'))),
                {'status': status})
        if status != 'JobSuccess':
            return
        if qp:
            w.probe('rebuild-with-queued-prs')
        left = [r for r in after if r.startswith('q/')]
        if left:
            raise Violation('C20', 'C20:rebuild-left-queue-branches',
                            'rebuild-queues left %s' % left, {})
        # run_job records the task queue right after the job
        pend = rec['pending_after']
        ids = []
        for s in pend:
            m = re.match(r'^Webhook for pull request #(\d+)$', s)
            if m:
                ids.append(int(m.group(1)))
            else:
                raise Violation(
                    'C20', 'C20:rebuild-resubmitted-foreign-job',
                    'unexpected pending job %r after rebuild' % s, {})
        if sorted(ids) != sorted(qp) or len(ids) != len(set(ids)):
            raise Violation(
                'C20', 'C20:rebuild-resubmitted-wrong-set',
                'rebuild-queues re-submitted %s, queued were %s' % (
                    ids, sorted(qp)), {})
        # order of entry, within each independent queue
        def group(pid):
            vs = qp[pid]
            return 'hotfix:' + vs[0] if all(v.count('.') == 3 for v in vs) \
                else 'main'
        entry = [p for p in self.queue_entry if p in qp]
        for g in set(group(p) for p in qp):
            exp = [p for p in entry if group(p) == g]
            got = [p for p in ids if group(p) == g and p in exp]
            if exp != got:
                raise Violation(
                    'C20', 'C20:rebuild-resubmitted-wrong-order',
                    'rebuild-queues re-submitted %s, entry order was %s '
                    '(%s queue)' % (got, exp, g), {})

    def nontrivial(self, w):
        p = w.stats['probes']
        return sum(p.get(k, 0) for k in (
            'create-branch-success', 'delete-branch-success',
            'rebuild-with-queued-prs', 'refusal')) > 0
