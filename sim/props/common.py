"""Helpers shared by several E1 property oracles."""
import re

from ..world import DEST_PREFIXES, ROBOT


def msg_title(text):
    """First heading line of a robot message."""
    for line in text.splitlines():
        line = line.strip()
        if line:
            return line.lstrip('#').strip()
    return ''


def job_kind(rec):
    return rec['job'].split(':')[0] + (
        ':' + rec['job'].split(':')[1] if rec['job'].startswith('api:')
        else '')


def moved_destinations(rec):
    out = []
    for r, new in rec['refs_after'].items():
        if r.startswith(DEST_PREFIXES):
            old = rec['refs_before'].get(r)
            if old is not None and old != new:
                out.append((r, old, new))
    return out


def newly_merged(rec):
    return [pid for pid, st in rec['prs_after'].items()
            if st == 'MERGED' and rec['prs_before'].get(pid) == 'OPEN']


def addressed_keywords(w, text):
    """Keywords of a comment addressed to the robot in one of the canonical
    shapes the simulator generates ('@robot a b=c', '/a', '@robot: a, b')."""
    raw = text.strip()
    if raw.startswith('@' + ROBOT):
        rest = raw[len(ROBOT) + 1:]
    elif raw.startswith('/'):
        rest = raw
    else:
        return []
    words = re.split(r'[\s,.\-/:;|+]+', rest)
    return [x for x in words if x]


def build_bypassed(w, pr_id):
    """Was the build check of this PR bypassed (admin comment, per-author
    setting or command line)?  Generous on purpose (any admin comment that
    names the option counts) so that oracles are never stricter than the
    statement."""
    if 'bypass_build_status' in w.cfg.get('cmd_line_options', []):
        return True
    pr = w.host_pr(pr_id)
    if pr is None:
        return False
    author = pr.author
    opts = w.settings_data.get('pr_author_options', {}).get(author, [])
    if 'bypass_build_status' in opts:
        return True
    admins = [str(a) for a in w.settings_data.get('admins', [])]
    for c in w.comments(pr_id):
        if c['by'] in admins and c['by'] != author and \
                'bypass_build_status' in c['text']:
            return True
    return False


def user_pr_by_src(w, src):
    cands = [p for p in w.pr_table()
             if p['author'] != ROBOT and p['src'] == src]
    return min(cands, key=lambda p: p['id']) if cands else None
