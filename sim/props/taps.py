"""E1 taps for the properties whose volume engine is E5: the same oracles,
evaluated on whole-pipeline runs (real Bert-E, real git, mock host), so that
what the component-level engines model (add_to_queue, job plumbing) is also
checked for real.  One task in three of C04/C05/C07/C09/C11 is a tap run.
"""
import re

from .. import ops
from ..core import Violation, derive_seed
from ..models import layout_from_refs, Layout
from ..world import ROBOT, DEST_PREFIXES
from .. import e5_reviews as R
from .base import E1Prop
from .common import moved_destinations, newly_merged, msg_title
from .c12 import hold_of, is_foreign

POST_APPROVAL = ('BuildNotStarted', 'BuildInProgress', 'BuildFailed',
                 'Queued', 'SuccessMessage', 'QueueConflict',
                 'QueueOutOfOrder')
POST_JIRA = POST_APPROVAL + ('ApprovalRequired', 'Conflict',
                             'BranchHistoryMismatch',
                             'RequestIntegrationBranches')
JIRA_FAIL = ('MissingJiraId', 'JiraIssueNotFound', 'IncorrectJiraProject',
             'IssueTypeNotSupported', 'IncorrectFixVersion')


class TapMixin:
    """Alternates E5 batch tasks with E1 tap tasks."""
    TAP_CLASS = None
    ENGINE = 'mixed'
    TAP_SLOTS = (2,)         # which of three consecutive tasks are taps

    def tasks(self, base_seed, tier):
        i = 0
        gen = super().tasks(base_seed, tier)
        while True:
            if i % 3 in self.TAP_SLOTS:
                yield {'property': self.ID, 'tier': tier, 'mode': 'explore',
                       'seed': derive_seed(base_seed, self.ID, 'tap', i),
                       'part': 'tap', 'name': '%s#tap%d' % (self.ID, i),
                       'hang_s': 900}
            else:
                yield next(gen)
            i += 1

    def run(self, task):
        part = task.get('part') or (task.get('config') or {}).get('part')
        if part == 'tap':
            from ..runner import run_e1
            tap = self.TAP_CLASS()
            res = run_e1(task, tap)
            res['config'] = dict(res['config'], part='tap')
            res['stats']['probes'] = {'tap:' + k: v for k, v in
                                      res['stats']['probes'].items()}
            return res
        return super().run(task)


def evaluated_pr(w, rec):
    """pr_table row of the user PR a job evaluated (None if unknown)."""
    table = {p['id']: p for p in w.pr_table()}
    if not rec['job'].startswith('pr:'):
        return None
    p = table.get(int(rec['job'].split(':')[1]))
    if p and p['author'] == ROBOT:
        m = re.search(r'PR#(\d+) ', p['title'])
        p = table.get(int(m.group(1))) if m else None
    return p


def reaches_gates(w, rec, p):
    """Does the evaluation of p get as far as handle_comments?"""
    if p is None or rec['prs_before'].get(p['id']) != 'OPEN':
        return False
    if is_foreign(p) or p['dst'] not in rec['refs_before'] or \
            p['src'] not in rec['refs_before']:
        return False
    return True


class ReviewTap(E1Prop):
    """C04 / C07 on whole evaluations."""
    ID = 'C04'
    PROFILE = {'p_queue': 0.5, 'p_skip_queue': 0.5, 'approvals': True,
               'ndev': [1, 2, 2, 3]}
    WEIGHTS = {'open_pr': 5, 'ci': 1, 'ci_green_all': 5, 'deliver': 9,
               'deliver_all': 3, 'api': 0.1, 'commit': 0.5, 'comment': 6,
               'approve': 6, 'request_changes': 1.5, 'dismiss': 1,
               'comment_review': 0.8, 'delete_comment': 0.8, 'wcommit': 0,
               'restart': 0.1, 'amend': 0, 'rebase': 0, 'decline': 0.1}
    GEN_KW = {'ci_green_bias': 0.9, 'only_new': True, 'max_prs': 3,
              'api_jobs': ['eval_pr']}
    NOPS = (10, 24)
    MODE = 'C04'

    def gen_config(self, rng, tier):
        cfg = ops.gen_config(rng, self.PROFILE)
        st = cfg['settings']
        st['admins'] = rng.choice([['root'], ['root', 'alice']])
        st['project_leaders'] = rng.choice([['lead'], ['lead', 'alice']])
        st['required_leader_approvals'] = min(
            st.get('required_leader_approvals', 0),
            st.get('required_peer_approvals', 0),
            len(st['project_leaders']))
        if rng.random() < 0.3:
            from ..e5_reviews import gen_author_options
            st['pr_author_options'] = gen_author_options(
                rng, rng.choice(['alice', 'bob']),
                ['bypass_author_approval', 'bypass_peer_approval',
                 'bypass_leader_approval'], others=('alice', 'bob', 'carol'))
        return cfg

    def begin(self, w, rng):
        super().begin(w, rng)
        from bert_e.reactor import Reactor
        self.registry = dict(Reactor.get_options())
        self.options = sorted(Reactor.get_options())
        self.commands = sorted(Reactor.get_commands())
        gen = self.gen

        def g_comment(w_):
            p = gen.pick_pr(w_)
            if p is None:
                return None
            return {'op': 'comment', 'p': p,
                    'actor': rng.choice(['alice', 'bob', 'carol', 'root',
                                         'root', 'lead']),
                    'text': R.gen_comment(rng, self.options, self.commands)}
        gen.g_comment = g_comment

    def check_job(self, w, rec):
        p = evaluated_pr(w, rec)
        if not reaches_gates(w, rec, p):
            return
        author = p['author']
        admins = [str(a) for a in w.settings_data.get('admins', [])]
        comments = [(c['by'], c['text']) for c in w.comments(p['id'])]
        # comments as they were when the job ran: the robot's own new
        # comments come last and never carry options
        blocked, applied, unspec = R.ref_options(
            comments, author, admins, self.options, self.commands,
            self.registry)
        if unspec:
            w.probe('unspecified-shape')
            return
        status = rec['status']
        if blocked:
            w.probe('ref-blocked:' + blocked)
            if self.MODE == 'C07' and status != blocked:
                raise Violation(
                    'C07', 'C07:tap:not-blocked:%s:got-%s' % (blocked,
                                                              status),
                    'PR #%d: the comments must block it with %s; the whole '
                    'evaluation ended %s' % (p['id'], blocked, status),
                    {'comments': comments[-6:]})
            return
        if self.MODE == 'C07':
            # options visible in the outcome: a privileged bypass that is
            # not entitled must not let the PR past the gate it guards -
            # covered by the C04 tap; nothing more to compare here
            w.probe('not-blocked')
            return
        before_cmds = [(c['by'], c['text']) for c in w.comments(p['id'])][
            :len(comments) - len([c for c in rec['new_comments']
                                  if c['pr'] == p['id']])]
        if R.ref_pending_command(before_cmds, self.options, self.commands):
            return
        if hold_of(w, p, rec['prs_before']) is not None:
            return
        opts = dict(applied)
        for k in w.cfg.get('cmd_line_options', []):
            opts[k] = True
        for k in w.settings_data.get('pr_author_options', {}).get(author,
                                                                   []):
            opts[k] = True
        cfg = {'settings': w.settings_data}
        want = R.ref_gate(cfg, opts, author, p['approved'],
                          p['participants'], p['changes'])
        if status == 'ApprovalRequired':
            w.probe('stopped-at-review-gate')
            if want == 'pass':
                raise Violation(
                    'C04', 'C04:tap:gate-stop-should-pass',
                    'PR #%d stopped at the review gate; the reference says '
                    'it passes (approvals %s, participants %s, change '
                    'requests %s, options %s, settings %s)' % (
                        p['id'], p['approved'], p['participants'],
                        p['changes'], sorted(opts), {
                            k: v for k, v in w.settings_data.items()
                            if k.startswith(('required', 'need', 'project',
                                             'pr_author'))}), {})
        elif status in POST_APPROVAL:
            w.probe('went-past-review-gate')
            if want == 'stop':
                raise Violation(
                    'C04', 'C04:tap:gate-pass-should-stop',
                    'PR #%d went past the review gate (status %s); the '
                    'reference says it must stop (approvals %s, '
                    'participants %s, change requests %s, options %s, '
                    'settings %s)' % (
                        p['id'], status, p['approved'], p['participants'],
                        p['changes'], sorted(opts), {
                            k: v for k, v in w.settings_data.items()
                            if k.startswith(('required', 'need', 'project',
                                             'pr_author'))}), {})

    def nontrivial(self, w):
        pr = w.stats['probes']
        return any(k in pr for k in ('stopped-at-review-gate',
                                     'went-past-review-gate',
                                     'not-blocked')) or any(
            k.startswith('ref-blocked') for k in pr)


class ReviewTapC07(ReviewTap):
    ID = 'C07'
    MODE = 'C07'


class CascadeTap(E1Prop):
    """C09 on real repositories: which w/<version>/... branches appear."""
    ID = 'C09'
    PROFILE = {'p_queue': 0.6, 'p_stab': 0.45, 'p_hotfix': 0.35}
    WEIGHTS = {'open_pr': 8, 'ci': 1, 'ci_green_all': 4, 'deliver': 10,
               'deliver_all': 3, 'api': 2.5, 'tag': 1.2, 'commit': 0.5,
               'comment': 0.1}
    GEN_KW = {'only_new': True, 'max_prs': 5, 'ci_green_bias': 0.9,
              'api_jobs': ['create_branch', 'create_branch',
                           'delete_branch', 'eval_pr']}
    NOPS = (8, 20)

    def check_job(self, w, rec):
        p = evaluated_pr(w, rec)
        if not reaches_gates(w, rec, p):
            return
        if rec['status'] not in POST_APPROVAL + ('ApprovalRequired',):
            return
        lay = layout_from_refs(rec['refs_before'])
        from ..e5_cascade import must_reject
        if must_reject(lay) or lay.well_formed():
            return
        targets = lay.targets(p['dst'])
        if not targets:
            return
        if rec['status'] == 'SuccessMessage':
            return       # integration branches already removed
        want = sorted(t.split('/', 1)[1] for t in targets[1:])
        src = p['src']
        got = sorted(r[2:-len(src) - 1] for r in rec['refs_after']
                     if r.startswith('w/') and r.endswith('/' + src) and
                     '/' not in r[2:-len(src) - 1])
        w.probe('integration-branches-compared')
        # a branch left from an earlier, longer cascade (a destination was
        # archived since) is not this evaluation's doing: what is decided
        # here is that every target has its branch and nothing new appears
        # for a non-target
        stale = [v for v in got if v not in want and
                 ('w/%s/%s' % (v, src)) in rec['refs_before']]
        if stale:
            w.probe('stale-integration-branch-of-removed-target')
            got = [v for v in got if v not in stale]
        if got != want:
            raise Violation(
                'C09', 'C09:tap:wrong-integration-branches',
                'PR #%d (%s -> %s) has integration branches for versions '
                '%s; its targets beyond the first are %s (refs %s)' % (
                    p['id'], src, p['dst'], got, want,
                    sorted(r for r in rec['refs_before']
                           if r.startswith(DEST_PREFIXES))), {})

    def nontrivial(self, w):
        return 'integration-branches-compared' in w.stats['probes']


class TicketTap(E1Prop):
    """C11 on whole evaluations, Jira switched on."""
    ID = 'C11'
    PROFILE = {'p_queue': 0.5, 'p_skip_queue': 0.5, 'p_stab': 0.3,
               'p_hotfix': 0.2, 'ndev': [1, 2, 2, 3]}
    WEIGHTS = {'open_pr': 7, 'ci': 1, 'ci_green_all': 3, 'deliver': 9,
               'deliver_all': 3, 'api': 0.2, 'commit': 0.3, 'comment': 1,
               'jira': 9, 'tag': 0.3}
    GEN_KW = {'only_new': True, 'max_prs': 4, 'adversarial': 0.5,
              'api_jobs': ['eval_pr'],
              'comment_texts': ['@%s bypass_jira_check' % ROBOT, 'hello']}
    NOPS = (10, 24)

    def gen_config(self, rng, tier):
        cfg = ops.gen_config(rng, self.PROFILE)
        cfg['settings'].update({
            'jira_account_url': 'https://jira.sim', 'jira_email': 'r@sim',
            'jira_keys': rng.choice([['TEST'], ['TEST', 'OTHER']]),
            'prefixes': rng.choice([{}, {'Bug': 'bugfix',
                                         'Story': 'feature'}]),
            'bypass_prefixes': rng.choice([[], ['documentation']]),
            'disable_version_checks': rng.random() < 0.2})
        if rng.random() < 0.25:
            from ..e5_reviews import gen_author_options
            cfg['settings']['pr_author_options'] = gen_author_options(
                rng, rng.choice(['alice', 'bob']),
                ['bypass_jira_check', 'bypass_build_status'],
                others=('alice', 'bob', 'carol'))
        return cfg

    def begin(self, w, rng):
        super().begin(w, rng)
        gen = self.gen

        def g_jira(w_):
            keys = []
            for p in w_.pr_table():
                m = re.match(r'^\w+/([a-zA-Z0-9_]+-[0-9]+)', p['src'])
                if m and p['author'] != ROBOT:
                    keys.append((m.group(1).upper(), p))
            if not keys:
                return None
            key, p = rng.choice(keys)
            r = rng.random()
            if r < 0.15:
                return {'op': 'jira', 'do': 'delete', 'key': key}
            if r < 0.25:
                return {'op': 'jira', 'do': 'fail', 'key': key,
                        'code': rng.choice([404, 500, 502])}
            lay = layout_from_refs(w_.refs())
            fix = [v for v in (lay.fix_versions(p['dst']) or []) if v]
            if rng.random() < 0.45:
                pool = fix + ['4.3.9', '10.0.7', '5.1.2_rc1', '4.3.0.1']
                fix = rng.sample(pool, rng.randint(0, min(3, len(pool))))
            return {'op': 'jira', 'do': 'set', 'key': key,
                    'type': rng.choice(['Bug', 'Story', 'Task']),
                    'fix': fix}
        gen.g_jira = g_jira
        gen.weights['jira'] = self.WEIGHTS['jira']

    def next_op(self, w, rng, step, nsteps):
        if step == 0:
            self.script = []
            if w.cfg.get('stabs') and rng.random() < 0.5:
                # story: a PR is evaluated while a stabilization branch is
                # alive; the branch is then released (archived: its tag is
                # pushed, the branch deleted); a second PR carries a ticket
                # that fits the versions expected *now*
                dests = ops.dest_branches(w.cfg)
                stab = [d for d in dests if d.startswith('stabilization/')][0]
                devs = [d for d in dests if d.startswith('development/')]
                seq = [{'op': 'open_pr', 'actor': 'alice',
                        'src': 'bugfix/TEST-981', 'dst': devs[0],
                        'kind': 'new'},
                       {'op': 'eval', 'p': 0},
                       {'op': 'api', 'job': 'delete_branch',
                        'kwargs': {'branch': stab}},
                       {'op': 'open_pr', 'actor': 'bob',
                        'src': 'bugfix/TEST-982', 'dst': devs[0],
                        'kind': 'new'},
                       {'op': 'fitjira', 'p': 1},
                       {'op': 'eval', 'p': 1}, {'op': 'eval', 'p': 1}]
                for o in seq:
                    o['dt'] = rng.choice([1, 5, 30])
                self.script = seq
        if getattr(self, 'script', None):
            return self.script.pop(0)
        return self.gen.next(w)

    def check_job(self, w, rec):
        from .c11 import reference
        p = evaluated_pr(w, rec)
        if not reaches_gates(w, rec, p):
            return
        status = rec['status']
        if status in JIRA_FAIL:
            w.probe('ticket-gate-refused:' + status)
            changed = {r for r in set(rec['refs_before']) |
                       set(rec['refs_after'])
                       if rec['refs_before'].get(r) !=
                       rec['refs_after'].get(r)}
            if changed:
                raise Violation(
                    'C11', 'C11:tap:refusal-touched-repository',
                    'PR #%d refused by the ticket gate (%s) but the job '
                    'changed %s' % (p['id'], status, sorted(changed)), {})
        if status not in JIRA_FAIL and status not in POST_JIRA:
            return
        if hold_of(w, p, rec['prs_before']) is not None:
            return
        lay = layout_from_refs(rec['refs_before'])
        versions = [v for v in (lay.fix_versions(p['dst']) or [])]
        if None in versions or lay.well_formed():
            return
        author = p['author']
        admins = [str(a) for a in w.settings_data.get('admins', [])]
        bypass = 'bypass_jira_check' in w.cfg.get('cmd_line_options', []) \
            or 'bypass_jira_check' in w.settings_data.get(
                'pr_author_options', {}).get(author, []) or any(
                c['by'] in admins and c['by'] != author and
                'bypass_jira_check' in c['text']
                for c in w.comments(p['id']))
        if any('bypass_jira_check' in c['text'] and c['by'] != ROBOT
               for c in w.comments(p['id'])) and not bypass:
            return      # blocked earlier by NotEnoughCredentials
        cfg = {'settings': w.settings_data}
        # Jira failures injected for "the next call" are consumed by this
        # evaluation only if it consulted Jira: unknown here -> tolerate
        want = reference(cfg, p['src'], lambda k: w.jira.issues.get(k),
                         versions, {'bypass_jira_check': bypass}, None)
        got = 'pass' if status in POST_JIRA else status
        w.probe('ticket-gate-compared:' + want)
        if got != want and not getattr(w.jira, 'recent_fail', False):
            raise Violation(
                'C11', 'C11:tap:%s-should-be-%s' % (got, want),
                'PR #%d (%s -> %s, expected versions %s, issue %s): the '
                'evaluation %s, the statement says %s' % (
                    p['id'], p['src'], p['dst'], versions,
                    w.jira.issues.get((re.match(
                        r'^\w+/([a-zA-Z0-9_]+-[0-9]+)', p['src']) or
                        re.match('()', '')).group(1).upper()),
                    'was refused with ' + status if got != 'pass' else
                    'went past the ticket gate (%s)' % status, want), {})

    def apply(self, w, op):
        # an injected Jira failure hits whichever evaluation consults Jira
        # next: tolerate mismatches for the two ops that follow it
        if op['op'] == 'jira' and op.get('do') == 'fail':
            self.fail_window = 3
        self.fail_window = max(0, getattr(self, 'fail_window', 0) - 1)
        w.jira.recent_fail = self.fail_window > 0 or \
            w.jira.fail_next is not None
        if op['op'] == 'fitjira':
            # the ticket of that PR gets exactly the versions expected now
            pr = ops.user_pr(w, op.get('p'))
            w.stats['ops'] += 1
            if pr is not None:
                m = re.match(r'^\w+/([a-zA-Z0-9_]+-[0-9]+)', pr.src_branch)
                lay = layout_from_refs(w.refs())
                fix = [v for v in (lay.fix_versions(pr.dst_branch) or [])
                       if v]
                if m:
                    w.jira.issues[m.group(1).upper()] = {
                        'type': 'Bug', 'fixVersions': fix}
            w.step_digest(op, [])
            return []
        return ops.apply_op(w, op)

    def nontrivial(self, w):
        return any(k.startswith('ticket-gate-compared')
                   for k in w.stats['probes'])


class QueueTap(E1Prop):
    """C05 on real queues built by the real add_to_queue."""
    ID = 'C05'
    PROFILE = {'p_queue': 1.0, 'p_skip_queue': 0.0, 'p_stab': 0.45,
               'p_hotfix': 0.3, 'ndev': [1, 2, 2, 3, 3]}
    WEIGHTS = {'open_pr': 7, 'ci': 12, 'ci_green_all': 2, 'deliver': 9,
               'deliver_all': 3, 'api': 0.6, 'commit': 0.2, 'comment': 0}
    GEN_KW = {'only_new': True, 'max_prs': 4, 'ci_green_bias': 0.65,
              'ci_states': ('SUCCESSFUL', 'FAILED', 'INPROGRESS',
                            'NOTSTARTED', 'STOPPED'),
              'api_jobs': ['force_merge', 'eval_pr']}
    NOPS = (12, 28)

    def begin(self, w, rng):
        super().begin(w, rng)
        self.entry = []
        # get PRs into the queue quickly: green source / w tips often
        gen = self.gen
        orig = gen.next

        def nxt(w_):
            if rng.random() < 0.2:
                return {'op': 'ci_green_all', 'which': ['src', 'w'],
                        'dt': 1}
            return orig(w_)
        gen.next = nxt

    def next_op(self, w, rng, step, nsteps):
        if step == 0:
            self.script = []
            if rng.random() < 0.5:
                # story: two or three PRs on drawn destinations (hotfix and
                # stabilization branches included) enter the queue; CI then
                # turns the queue commits of a drawn subset green and the
                # others red, and the queue is evaluated
                dests = ops.dest_branches(w.cfg)
                n = rng.choice([2, 2, 3])
                picks = [rng.choice(dests) for i in range(n)]
                if len(set(picks)) == 1 and len(dests) > 1:
                    picks[-1] = rng.choice([d for d in dests
                                            if d != picks[0]])
                seq = []
                for i, d in enumerate(picks):
                    seq.append({'op': 'open_pr', 'actor': rng.choice(
                        ['alice', 'bob']), 'src': 'bugfix/TEST-%d' % (
                        950 + i), 'dst': d, 'kind': 'new'})
                for i in range(n):
                    seq.append({'op': 'eval', 'p': i})
                seq.append({'op': 'ci_green_all', 'which': ['src', 'w']})
                order = list(range(n))
                rng.shuffle(order)
                for i in order:
                    seq.append({'op': 'eval', 'p': i})
                greens = [i for i in range(n) if rng.random() < 0.55]
                for i in range(n):
                    st = 'SUCCESSFUL' if i in greens else rng.choice(
                        ['FAILED', 'FAILED', 'INPROGRESS', 'STOPPED'])
                    for vi in range(5):
                        seq.append({'op': 'ci', 'state': st,
                                    'target': ['qw', i, vi],
                                    'event_anyway': True})
                seq.append({'op': 'deliver_all'})
                for o in seq:
                    o['dt'] = rng.choice([1, 5, 30])
                self.script = seq
        if getattr(self, 'script', None):
            return self.script.pop(0)
        return self.gen.next(w)

    def queue_state(self, w, refs):
        """PR -> {version: tip} from q/w refs."""
        out = {}
        for r, sha in refs.items():
            m = re.match(r'^q/w/(\d+)/([^/]+)/', r)
            if m:
                out.setdefault(int(m.group(1)), {})[m.group(2)] = sha
        return out

    def check_job(self, w, rec):
        before = rec['refs_before']
        if rec['status'] == 'Queued':
            for r in rec['refs_after']:
                m = re.match(r'^q/w/(\d+)/', r)
                if m and r not in before:
                    pid = int(m.group(1))
                    if pid in self.entry:
                        self.entry.remove(pid)
                    self.entry.append(pid)
        q = self.queue_state(w, before)
        if not q:
            return
        evaluated_queue = rec['status'] in ('Merged', 'QueueBuildFailed') \
            or rec['job'].startswith('api:force_merge')
        if rec['job'].startswith('commit:') and \
                rec['status'] == 'NothingToDo':
            sha = (rec.get('event') or {}).get('sha')
            # only the tip of a q/<version> branch sends the event
            # straight to the queue evaluation
            if sha and any(r.startswith('q/') and not r.startswith('q/w/')
                           and s == sha for r, s in before.items()):
                evaluated_queue = True
        if not evaluated_queue:
            return
        if rec['status'] not in ('Merged', 'QueueBuildFailed',
                                 'NothingToDo'):
            return       # the queue evaluation failed (IncoherentQueues...)
        force = rec['job'].startswith('api:force_merge')
        key = w.build_key

        def green(sha):
            return w.mock.Repository.revisions.get((sha, key)) == \
                'SUCCESSFUL'
        order = [p for p in self.entry if p in q]
        if sorted(order) != sorted(q):
            return       # queue entries this run did not see being made
        groups = {}
        for p in order:
            vs = q[p]
            grp = 'hotfix:' + sorted(vs)[0] if all(
                v.count('.') == 3 for v in vs) else 'main'
            groups.setdefault(grp, []).append(p)
        want = []
        moves = {}
        for grp, lst in groups.items():
            best = 0
            for k in range(len(lst), 0, -1):
                newest = {}
                for p in lst[:k]:
                    for v in q[p]:
                        newest[v] = p
                if force or all(green(q[p][v]) for v, p in newest.items()):
                    best = k
                    break
            want += lst[:best]
            for p in lst[:best]:
                for v, sha in q[p].items():
                    moves[v] = sha
        w.probe('queue-evaluation-compared')
        got = sorted(newly_merged(rec))
        got = [p for p in got if p in q]
        moved = {}
        for ref, old, new in moved_destinations(rec):
            moved[ref] = new
        want_moved = {}
        lay = layout_from_refs(before)
        for v, sha in moves.items():
            parts = v.split('.')
            if len(parts) == 4:
                name = 'hotfix/' + '.'.join(parts[:3])
            elif len(parts) == 3:
                name = 'stabilization/' + v
            else:
                name = 'development/' + v
            if before.get(name) != sha:
                want_moved[name] = sha
        if want:
            w.probe('non-empty-selection')
        if moved != want_moved:
            kind = 'C05:tap:selection-differs'
            for ref, new in moved.items():
                if not force and not green(new):
                    later = any(
                        green(s) and w.is_ancestor(new, s) and s != new
                        for r, s in before.items() if r.startswith('q/w/')
                        and r.split('/')[3] == ref.split('/', 1)[1])
                    kind = 'C05:unsound-move:%s:%s' % (
                        ref.split('/')[0], 'green-only-on-a-later-pr'
                        if later else 'never-green')
                    break
            raise Violation(
                'C05', kind,
                'real queue (entry order %s, versions %s): job %s (%s) '
                'moved %s; the longest all-green prefix %s would move %s' % (
                    order, {p: sorted(v) for p, v in q.items()}, rec['job'],
                    rec['status'],
                    {r: s[:8] for r, s in moved.items()}, want,
                    {r: s[:8] for r, s in want_moved.items()}), {})

    def nontrivial(self, w):
        return 'queue-evaluation-compared' in w.stats['probes']


class WorkerTap(E1Prop):
    """C13 with real jobs: whatever a real handler does or raises, the real
    process_task returns, the job is recorded as finished with its status
    and the current-job marker is cleared."""
    ID = 'C13'
    PROFILE = {'p_queue': 0.8, 'p_skip_queue': 0.3, 'p_stab': 0.3,
               'p_hotfix': 0.25, 'ndev': [1, 2, 2, 3]}
    WEIGHTS = {'open_pr': 6, 'ci': 3, 'ci_green_all': 7, 'deliver': 10,
               'deliver_all': 3, 'api': 2.5, 'commit': 1, 'comment': 1.5,
               'dup': 4, 'decline': 0.5, 'delete_src': 0.3, 'wcommit': 0.3,
               'delete_w': 0.3, 'tag': 0.2, 'restart': 0.1}
    GEN_KW = {'ci_green_bias': 0.85, 'max_prs': 3, 'adversarial': 0.3,
              'api_jobs': ['force_merge', 'rebuild_queues', 'delete_queues',
                           'eval_pr', 'create_branch', 'delete_branch']}
    NOPS = (10, 26)

    def begin(self, w, rng):
        super().begin(w, rng)
        # judged the moment process_task returns (one delivery may run
        # several jobs before the op is over)
        w.on_job_done = lambda rec: self.check_now(w, rec)
        # a job that never comes back (the worker blocked for good) is
        # told apart from a slow one by a generous wall-clock watchdog
        w.job_alarm = 150

    def check_now(self, w, rec):
        if rec['killed']:
            return
        w.probe('real-job:%s' % (rec['job'].split(':')[0]))
        if rec['crashed'] and rec['crashed'].startswith('SimHang'):
            raise Violation(
                'C13', 'C13:worker-stuck',
                'the worker did not come back from job %s within %d s of '
                'wall clock (real jobs take a few seconds): every later '
                'request waits for ever' % (rec['job'], w.job_alarm), {})
        if rec['crashed']:
            raise Violation(
                'C13', 'C13:worker-died:%s' % rec['crashed'].split(':')[0],
                'process_task raised %s while serving job %s (status %s): '
                'in the server the worker thread is gone and every later '
                'request waits for ever' % (rec['crashed'], rec['job'],
                                            rec['status']), {})
        if 'current job' in w.berte.status:
            raise Violation(
                'C13', 'C13:marker-not-cleared',
                'after job %s (%s) the current-job marker still says %r' % (
                    rec['job'], rec['status'],
                    w.berte.status.get('current job')), {})
        done = list(w.berte.tasks_done)
        if not done or not done[0].done or \
                str(done[0].status) != str(rec["status"]):
            raise Violation(
                'C13', 'C13:job-not-recorded',
                'job %s ended %s but the list of finished jobs ends with '
                '%s' % (rec['job'], rec['status'],
                        done and (str(done[0]), done[0].status)), {})

    def nontrivial(self, w):
        return w.stats['jobs'] >= 3
