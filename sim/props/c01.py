"""C01 - forward-port inclusion of destination branches is an invariant."""
from ..core import Violation
from ..models import layout_from_refs
from .base import E1Prop


def chain_failures(w, refs):
    """Pairs (older, newer) of the C01 chain that do not hold on `refs`."""
    lay = layout_from_refs(refs)
    bad = []
    for a, b in lay.chain_pairs():
        if not w.is_ancestor(refs[a], refs[b]):
            bad.append((a, b))
    return bad


def check_chain(w, rec, prop='C01'):
    after_bad = chain_failures(w, rec['refs_after'])
    if not after_bad:
        return
    if chain_failures(w, rec['refs_before']):
        w.probe('chain-already-broken-before-job')
        return     # conditional form: it did not hold before the event
    a, b = after_bad[0]
    raise Violation(
        prop, '%s:not-included:%s->%s' % (prop, a, b),
        '%s is not contained in %s after job %s (status %s)' % (
            a, b, rec['job'], rec['status']),
        {'job': rec['job'], 'status': rec['status'],
         'pushes': [m for m in rec['mut'] if m['kind'] == 'push'],
         'refs_before': rec['refs_before'], 'refs_after': rec['refs_after']})


class C01(E1Prop):
    ID = 'C01'
    PROFILE = {'p_queue': 0.7, 'p_stab': 0.35, 'p_hotfix': 0.25}
    WEIGHTS = {'open_pr': 6, 'ci': 5, 'ci_green_all': 4, 'deliver': 8,
               'deliver_all': 3, 'api': 1.5, 'commit': 2, 'comment': 0.6,
               'wcommit': 0.2, 'restart': 0.15}
    GEN_KW = {'ci_green_bias': 0.75}

    def next_op(self, w, rng, step, nsteps):
        from .. import ops
        if step == 0:
            self.script = []
            dests = ops.dest_branches(w.cfg)
            if len(dests) >= 2 and rng.random() < 0.3:
                # story: A conflicts on its integration branches and is
                # resolved by hand; meanwhile B lands on A's destination, so
                # that A's own merge is not a fast-forward
                d = rng.choice(dests[:-1])
                seq = [{'op': 'open_pr', 'actor': 'alice',
                        'src': 'bugfix/TEST-801', 'dst': d,
                        'kind': rng.choice(['ver', 'ver', 'new'])},
                       {'op': 'eval', 'p': 0}]
                for i in range(rng.choice([1, 2, 3])):
                    seq += [{'op': 'resolve_conflict', 'p': 0,
                             'side': rng.choice(['theirs', 'ours'])},
                            {'op': 'eval', 'p': 0}]
                seq += [{'op': 'open_pr', 'actor': 'bob',
                         'src': 'feature/TEST-802', 'dst': d,
                         'kind': 'new'},
                        {'op': 'eval', 'p': 1},
                        {'op': 'ci_green_all', 'which': ['src', 'w']},
                        {'op': 'eval', 'p': 1},
                        {'op': 'ci_green_all', 'which': ['src', 'w', 'q']},
                        {'op': 'deliver_all'},
                        {'op': 'eval', 'p': 0},
                        {'op': 'ci_green_all', 'which': ['src', 'w', 'q']},
                        {'op': 'eval', 'p': 0},
                        {'op': 'deliver_all'}]
                for o in seq:
                    o['dt'] = rng.choice([1, 5, 30])
                for i in range(rng.randint(0, 2)):
                    seq.insert(rng.randrange(3, len(seq)), self.gen.next(w))
                self.script = seq
            elif w.use_queue and rng.random() < 0.25:
                # story: a PR sits in the queue while an admin creates a
                # development branch newer than all others; then the queue
                # builds turn green
                devs = [d for d in dests if d.startswith('development/')]
                major = max(int(d.split('/')[1].split('.')[0])
                            for d in devs)
                seq = [{'op': 'open_pr', 'actor': 'alice',
                        'src': 'bugfix/TEST-821', 'dst': rng.choice(
                            dests[:max(1, len(dests) - 1)]), 'kind': 'new'},
                       {'op': 'eval', 'p': 0},
                       {'op': 'ci_green_all', 'which': ['src', 'w']},
                       {'op': 'eval', 'p': 0},
                       {'op': 'api', 'job': 'create_branch', 'kwargs': {
                           'branch': 'development/%d.%d' % (
                               major + 1, rng.choice([0, 2]))}},
                       {'op': 'ci_green_all'}, {'op': 'deliver_all'},
                       {'op': 'ci_green_all'}, {'op': 'deliver_all'}]
                for o in seq:
                    o['dt'] = rng.choice([1, 5, 30])
                self.script = seq
            elif len(dests) >= 2 and rng.random() < 0.3:
                # story (backport): a fix cut from an old commit of an early
                # destination lands on a later destination first; the early
                # destination moves; then the same commits are proposed on
                # the early destination
                devs = [d for d in dests if d.startswith('development/')]
                if len(devs) >= 2:
                    lo = rng.choice(devs[:-1])
                    hi = rng.choice(devs[devs.index(lo) + 1:])
                    seq = [
                        {'op': 'open_pr', 'actor': 'alice',
                         'src': 'bugfix/TEST-811', 'dst': hi, 'base': lo,
                         'from': 'old', 'kind': 'new'},
                        {'op': 'eval', 'p': 0},
                        {'op': 'ci_green_all'}, {'op': 'eval', 'p': 0},
                        {'op': 'ci_green_all'}, {'op': 'deliver_all'},
                        {'op': 'open_pr', 'actor': 'bob',
                         'src': 'feature/TEST-812', 'dst': lo,
                         'kind': 'new'},
                        {'op': 'eval', 'p': 1},
                        {'op': 'ci_green_all'}, {'op': 'eval', 'p': 1},
                        {'op': 'ci_green_all'}, {'op': 'deliver_all'},
                        {'op': 'open_pr', 'actor': 'alice',
                         'src': 'bugfix/TEST-813', 'dst': lo,
                         'same_as': 0},
                        {'op': 'eval', 'p': 2},
                        {'op': 'ci_green_all'}, {'op': 'eval', 'p': 2},
                        {'op': 'ci_green_all'}, {'op': 'deliver_all'}]
                    for o in seq:
                        o['dt'] = rng.choice([1, 5, 30])
                    self.script = seq
        if getattr(self, 'script', None):
            op = self.script.pop(0)
        else:
            op = self.gen.next(w)
        if op and op['op'] in ('deliver', 'eval') and rng.random() < 0.1:
            # "whatever the event did": for the whole of this job the
            # remote refuses every update of one destination branch
            dests = ops.dest_branches(w.cfg)
            op = dict(op, plan={'kind': 'reject', 'push': 0, 'persist': True,
                                'ref': 'refs/heads/' + rng.choice(dests)})
        return op

    def check_job(self, w, rec):
        check_chain(w, rec)
        moved = [r for r in rec['refs_after']
                 if r.startswith(('development/', 'stabilization/',
                                  'hotfix/'))
                 and rec['refs_before'].get(r) != rec['refs_after'][r]]
        if moved:
            w.probe('destination-moved')
            if len(moved) > 1:
                w.probe('several-destinations-moved')
        if rec['status'] == 'Merged':
            w.probe('queue-merge')
        if rec['status'] == 'SuccessMessage':
            w.probe('direct-merge')

    def nontrivial(self, w):
        return w.stats['probes'].get('destination-moved', 0) > 0
