"""C19 - integration branches and pull requests stay one-to-one with their
pull request."""
import random
import re

from .. import ops
from ..core import Violation
from ..models import layout_from_refs
from ..world import ROBOT
from .base import E1Prop

W_RE = re.compile(r'^w/(\d+(?:\.\d+){0,3})/(.+)$')


def check_structure(w, rec=None):
    refs = w.refs()
    table = w.pr_table()
    lay = layout_from_refs(refs)
    if lay.well_formed() is not None:
        return
    users = [p for p in table if p['author'] != ROBOT]
    by_src = {}
    for p in users:
        by_src.setdefault(p['src'], []).append(p)
    # every w/ branch belongs to exactly one parent and one of its targets
    for r in refs:
        m = W_RE.match(r)
        if not m:
            continue
        ver, src = m.group(1), m.group(2)
        parents = by_src.get(src)
        if not parents:
            # could be a nested name: w/5.1/<src> where src itself has '/'
            continue
        ok = False
        for p in parents:
            tg = lay.targets(p['dst']) or []
            vers = [t.split('/', 1)[1] for t in tg[1:]]
            if ver in vers:
                ok = True
        if not ok and all(p['dst'] in refs for p in parents):
            p = parents[0]
            raise Violation(
                'C19', 'C19:integration-branch-for-non-target',
                'branch %s exists but %s is not a target beyond the first '
                'of PR #%d (%s -> %s; targets %s)' % (
                    r, ver, p['id'], p['src'], p['dst'],
                    lay.targets(p['dst'])), {})
    # at most one OPEN robot PR per (integration branch, target), well named
    seen = {}
    for c in table:
        if c['author'] != ROBOT or c['state'] != 'OPEN':
            continue
        key = (c['src'], c['dst'])
        if key in seen:
            raise Violation(
                'C19', 'C19:duplicate-integration-pr',
                'two open integration pull requests #%d and #%d from %s '
                'to %s' % (seen[key], c['id'], c['src'], c['dst']), {})
        seen[key] = c['id']
        m = W_RE.match(c['src'])
        if not m:
            raise Violation(
                'C19', 'C19:robot-pr-from-non-integration-branch',
                'robot PR #%d has source %s' % (c['id'], c['src']), {})
        src = m.group(2)
        parents = by_src.get(src, [])
        tm = re.match(r'^INTEGRATION \[PR#(\d+) > (.+?)\] (.*)$', c['title'],
                      re.S)
        if not tm:
            raise Violation('C19', 'C19:integration-pr-title',
                            'robot PR #%d is titled %r' % (c['id'],
                                                           c['title']), {})
        parent_id, target, title = int(tm.group(1)), tm.group(2), tm.group(3)
        parent = [p for p in parents if p['id'] == parent_id]
        if not parent:
            raise Violation(
                'C19', 'C19:integration-pr-wrong-parent',
                'robot PR #%d (%s -> %s) names PR#%d as parent, which is '
                'not a pull request from %s' % (c['id'], c['src'], c['dst'],
                                                parent_id, src), {})
        # "titled after it": the title the parent had when the child was
        # made; nothing says that the children follow a later edit
        titles = [parent[0]['title']] + list(
            getattr(w, 'old_titles', {}).get(parent_id, []))
        if target != c['dst'] or title not in titles:
            raise Violation(
                'C19', 'C19:integration-pr-title',
                'robot PR #%d to %s is titled %r (parent title %r)' % (
                    c['id'], c['dst'], c['title'], parent[0]['title']), {})
        ids = re.findall(r'\d+', c['description'])
        if not ids or int(ids[0]) != parent_id:
            raise Violation(
                'C19', 'C19:integration-pr-description',
                'robot PR #%d: the first number of its description is %s, '
                'the parent is #%d' % (c['id'], ids[:1], parent_id), {})
        if m.group(1) != c['dst'].split('/', 1)[1]:
            raise Violation(
                'C19', 'C19:integration-pr-wrong-target',
                'robot PR #%d goes from %s to %s' % (c['id'], c['src'],
                                                     c['dst']), {})


class C19(E1Prop):
    ID = 'C19'
    PROFILE = {'p_queue': 0.6, 'p_skip_queue': 0.4, 'p_stab': 0.3,
               'p_hotfix': 0.15, 'ndev': [2, 3, 3, 4], 'p_int_prs': 0.5}
    WEIGHTS = {'open_pr': 6, 'ci': 3, 'ci_green_all': 4, 'deliver': 12,
               'deliver_all': 2, 'api': 0.5, 'commit': 2, 'comment': 1.5,
               'wcommit': 0.3, 'restart': 0.2, 'amend': 0.3, 'rebase': 0.3,
               'decline': 1.2, 'dup': 2.5, 'approve': 0.5, 'delete_w': 1.0}
    GEN_KW = {'ci_green_bias': 0.8, 'max_prs': 3, 'adversarial': 0.35,
              'api_jobs': ['eval_pr', 'rebuild_queues'],
              'comment_texts': ['@%s create_pull_requests' % ROBOT,
                                '@%s create_integration_branches' % ROBOT,
                                '/create_pull_requests', 'hello',
                                '@%s approve' % ROBOT]}
    NOPS = (10, 24)
    RUN_TIMEOUT = 900
    EXPECTED_PROBES = ['child-pr-created', 'redirect-probe',
                      'parent-declined-cleanup']

    def gen_config(self, rng, tier):
        self.tier = tier
        cfg = ops.gen_config(rng, self.PROFILE)
        cfg['robot_comment_events'] = True
        if rng.random() < 0.3:
            cfg['settings']['always_create_integration_branches'] = False
        if rng.random() < 0.25:
            # every gate open: integration branches are created, pushed and
            # merged away within one single job
            cfg['cmd_line_options'] = cfg['cmd_line_options'] + [
                'bypass_build_status']
            if rng.random() < 0.6:
                cfg['use_queue'] = False
                cfg['skip_queue'] = False
        return cfg

    def begin(self, w, rng):
        super().begin(w, rng)
        self.nprobes = 0
        self.nfaulted = 0
        # events on commits of source / integration / queue tips
        gen = self.gen
        orig = gen.next

        def nxt(w_):
            if rng.random() < 0.12:
                heads = w_.heads()
                cands = sorted(h for h in heads if h.startswith(('w/', 'q/'))
                               or any(p['src'] == h for p in w_.pr_table()))
                if cands:
                    return {'op': 'eval_commit',
                            'target': ['branch', rng.choice(cands)],
                            'dt': 1}
            return orig(w_)
        gen.next = nxt

    def next_op(self, w, rng, step, nsteps):
        tier = getattr(self, 'tier', 'quick')
        maxp = 2 if tier == 'quick' else 6
        if step == 0 and rng.random() < 0.3:
            # story: one multi-target PR is driven up to the job that lands
            # it; that job is the one that meets the fault
            dests = ops.dest_branches(w.cfg)
            d = rng.choice(dests[:max(1, len(dests) - 1)])
            seq = [{'op': 'open_pr', 'actor': 'alice',
                    'src': 'bugfix/TEST-931', 'dst': d, 'kind': 'new'},
                   {'op': 'eval', 'p': 0},
                   {'op': 'ci_green_all', 'which': ['src', 'w']}]
            if w.use_queue and not w.cfg.get('skip_queue'):
                seq += [{'op': 'eval', 'p': 0},
                        {'op': 'ci_green_all', 'which': ['q']}]
            seq.append({'op': 'fdeliver', 'i': -1,
                        'pick': rng.randrange(10 ** 9),
                        'fk': rng.choice(['kill', 'partition', 'hostfail']),
                        'wipe': rng.random() < 0.3})
            seq.append({'op': 'deliver_all'})
            for o in seq:
                o['dt'] = rng.choice([1, 5, 30])
            self.script = seq
            self.nfaulted += 1
        if getattr(self, 'script', None):
            return self.script.pop(0)
        if step >= 3 and rng.random() < 0.07:
            p = self.gen.pick_pr(w)
            if p is not None:
                # the author edits the title of a PR whose children exist;
                # later events must find the same children again
                self.script = [{'op': 'eval', 'p': p, 'dt': 1},
                               {'op': 'retitle', 'p': p, 'dt': 5,
                                'title': 'retitled %d' % step},
                               {'op': 'deliver_all', 'dt': 5},
                               {'op': 'eval', 'p': p, 'dt': 1}]
                if rng.random() < 0.4:
                    self.script += [{'op': 'decline', 'p': p, 'dt': 5},
                                    {'op': 'deliver_all', 'dt': 5}]
                return self.script.pop(0)
        if step >= 4 and rng.random() < 0.08:
            p = self.gen.pick_pr(w)
            if p is not None:
                # the author closes the PR and deletes (or not) the branch
                # before the robot gets to see the event
                self.script = [{'op': 'eval', 'p': p, 'dt': 1},
                               {'op': 'decline', 'p': p, 'dt': 5}]
                if rng.random() < 0.6:
                    self.script.append({'op': 'delete_src', 'p': p,
                                        'dt': 1})
                self.script.append({'op': 'deliver_all', 'dt': 5})
                return self.script.pop(0)
        if step >= 3 and self.nprobes < maxp and rng.random() < 0.15:
            self.nprobes += 1
            probe = {'op': 'probe', 'pick': rng.randrange(10 ** 9), 'dt': 1}
            if rng.random() < 0.6:
                # probe while something is pending: the builds have just
                # turned green and no event was handled since, so that the
                # evaluation of the parent has something to do
                self.script = [probe]
                return {'op': 'ci_green_all', 'dt': 1}
            return probe
        op = self.gen.next(w)
        if op and op['op'] == 'deliver' and \
                self.nfaulted < (2 if tier == 'quick' else 5) and \
                rng.random() < 0.2:
            # the job dies / loses the network / is refused a ref at one of
            # its remote-mutating operations; a fresh instance gets the
            # event again
            self.nfaulted += 1
            op = dict(op, op='fdeliver', pick=rng.randrange(10 ** 9),
                      fk=rng.choice(['kill', 'kill', 'partition',
                                     'hostfail']),
                      wipe=rng.random() < 0.3)
        return op

    def final(self, w, rng, replay=False):
        """Drive to quiescence, faults off: a merged pull request keeps no
        integration branch."""
        if replay:
            return []
        op = {'op': 'settle_and_check', 'dt': 1}
        w.final_sink.append(op)
        self.apply(w, op)
        return []

    def settle_and_check(self, w, op):
        w.stats['ops'] += 1
        w.on_job_done = lambda rec: self.check_job(w, rec)
        recs, ok = ops.settle(w, 14)
        w.on_job_done = None
        refs = w.refs()
        table = w.pr_table()
        for p in table:
            if p['author'] == ROBOT or p['state'] != 'MERGED':
                continue
            if any(q['id'] != p['id'] and q['src'] == p['src']
                   for q in table):
                continue
            left = sorted(r for r in refs if r.startswith('w/') and
                          r.endswith('/' + p['src']) and
                          W_RE.match(r) and W_RE.match(r).group(2) ==
                          p['src'])
            if left:
                raise Violation(
                    'C19', 'C19:merged-pr-keeps-integration-branches',
                    'PR #%d (%s) is merged, every event was delivered and '
                    'every build is green, yet %s remain on the remote' % (
                        p['id'], p['src'], left),
                    {'statuses': [(r['job'], r['status'])
                                  for r in recs][-12:]})
            w.probe('merged-pr-clean-at-the-end')
        w.step_digest(op, [])
        return []

    def fdeliver(self, w, op):
        w.stats['ops'] += 1
        w.clock.advance(op.get('dt', 1))
        if not w.events:
            w.step_digest(op, [])
            return []
        ev = w.events.pop(op.get('i', 0) % len(w.events))
        if 'plan' not in op:
            def clean(w_):
                recs = w_.deliver(dict(ev))
                return [m['kind'] for m in recs[0]['mut']] if recs else []
            mut = w.fork_variant(clean)
            if not mut:
                op['plan'] = None
            elif op['fk'] == 'hostfail':
                hosts = [i for i, k in enumerate(mut) if k == 'host']
                op['plan'] = {'kind': 'partition', 'when': 'before',
                              'at': hosts[op['pick'] % len(hosts)]} \
                    if hosts else None
            else:
                op['plan'] = {'kind': op['fk'], 'when': 'before',
                              'at': op['pick'] % len(mut)}
        recs = list(w.deliver(dict(ev), plan=op['plan'] and
                              dict(op['plan'])) or [])
        if op['plan']:
            w.restart(wipe=bool(op.get('wipe')))
            recs += list(w.deliver(dict(ev)) or [])
        w.step_digest(op, recs)
        return recs

    def apply(self, w, op):
        if op['op'] == 'fdeliver':
            return self.fdeliver(w, op)
        if op['op'] == 'settle_and_check':
            return self.settle_and_check(w, op)
        if op['op'] != 'probe':
            return ops.apply_op(w, op)
        w.stats['ops'] += 1
        w.clock.advance(op.get('dt', 1))
        # pick a parent with children / integration branches
        table = w.pr_table()
        heads = w.heads()
        if 'parent' not in op:
            r = random.Random(op['pick'])
            cands = [p for p in table if p['author'] != ROBOT and
                     p['state'] == 'OPEN' and p['src'] in heads]
            if not cands:
                w.step_digest(op, [])
                return []
            p = r.choice(cands)
            op['parent'] = p['id']
        parent = [p for p in table if p['id'] == op['parent']]
        if not parent:
            w.step_digest(op, [])
            return []
        parent = parent[0]
        src = parent['src']
        variants = [('parent', {'k': 'pr', 'id': parent['id']})]
        for c in table:
            if c['author'] == ROBOT and c['state'] == 'OPEN' and \
                    ('PR#%d ' % parent['id']) in c['title']:
                variants.append(('child', {'k': 'pr', 'id': c['id']}))
        shas = {}
        for h, sha in heads.items():
            shas.setdefault(sha, []).append(h)
        for h, sha in sorted(heads.items()):
            mine = h == src or (h.startswith('w/') and
                                h.endswith('/' + src))
            if not mine:
                continue
            # only tips that map to this PR alone and to no queue branch
            names = shas[sha]
            if all(n == src or (n.startswith('w/') and
                                n.endswith('/' + src)) for n in names):
                variants.append(('commit:' + ('src' if h == src else 'w'),
                                 {'k': 'commit', 'sha': sha}))
        outs = []
        for tag, ev in variants:
            def run(w_, ev=ev):
                w_.on_job_done = lambda rec: check_structure(w_, rec)
                w_.deliver(dict(ev))
                return w_.observable()
            outs.append((tag, w.fork_variant(run)))
        base = outs[0][1]
        for tag, o in outs[1:]:
            if o != base:
                from .c10 import _diff
                raise Violation(
                    'C19', 'C19:event-not-redirected-to-parent:%s' % tag,
                    'delivering a %s event instead of the event on parent '
                    'PR #%d leaves a different repository/host state: %s' % (
                        tag, parent['id'], _diff(base, o)), {})
            w.probe('redirect-probe')
        w.step_digest(op, [])
        return []

    def check_job(self, w, rec):
        check_structure(w, rec)
        if rec['new_prs']:
            w.probe('child-pr-created')
        table = {p['id']: p for p in w.pr_table()}
        before, after = rec['refs_before'], rec['refs_after']
        if rec['status'] == 'PullRequestDeclined':
            w.probe('parent-declined-cleanup')
            # which parent? the declined user PR whose branches vanished
            gone = [r for r in before if r not in after]
            newly = [i for i, st in rec['prs_after'].items()
                     if st == 'DECLINED' and
                     rec['prs_before'].get(i) != 'DECLINED']
            parents = [p for p in table.values() if p['author'] != ROBOT and
                       p['state'] == 'DECLINED']
            for r in gone:
                if not any(r.startswith('w/') and r.endswith('/' + p['src'])
                           for p in parents):
                    raise Violation(
                        'C19', 'C19:decline-deleted-foreign-branch',
                        'the clean-up of a declined PR deleted %s, which is '
                        'not an integration branch of a declined PR' % r, {})
            for i in newly:
                c = table.get(i)
                ok = c and c['author'] == ROBOT and any(
                    ('PR#%d ' % p['id']) in c['title'] for p in parents)
                if not ok:
                    raise Violation(
                        'C19', 'C19:decline-declined-foreign-pr',
                        'the clean-up of a declined PR declined PR #%s' % i,
                        {})
            # exactly: nothing of the declined parent is left
            if rec['job'].startswith('pr:'):
                pid = int(rec['job'].split(':')[1])
                p = table.get(pid)
                if p and p['author'] != ROBOT and p['state'] == 'DECLINED':
                    left = [r for r in after if r.startswith('w/') and
                            r.endswith('/' + p['src'])]
                    others = [q for q in table.values()
                              if q['id'] != pid and q['src'] == p['src'] and
                              q['author'] != ROBOT]
                    if left and not others:
                        raise Violation(
                            'C19', 'C19:decline-left-integration-branches',
                            'PR #%d was declined and cleaned up but %s '
                            'remain' % (pid, left), {})
                    open_kids = [c for c in table.values()
                                 if c['author'] == ROBOT and
                                 c['state'] == 'OPEN' and
                                 ('PR#%d ' % pid) in c['title']]
                    if open_kids:
                        raise Violation(
                            'C19', 'C19:decline-left-integration-prs',
                            'PR #%d was declined and cleaned up but its '
                            'integration PRs %s are still open' % (
                                pid, [c['id'] for c in open_kids]), {})
        # an evaluation of a declined parent that ends quietly must have
        # left nothing of it behind
        if rec['job'].startswith('pr:') and not rec['killed'] and \
                rec['status'] in ('PullRequestDeclined', 'NothingToDo'):
            pid = int(rec['job'].split(':')[1])
            p = table.get(pid)
            if p and p['author'] == ROBOT:
                m = re.search(r'PR#(\d+) ', p['title'])
                p = table.get(int(m.group(1))) if m else None
            if p and p['author'] != ROBOT and p['state'] == 'DECLINED':
                from .c12 import hold_of, is_foreign
                held = hold_of(w, dict(p, state='OPEN'),
                               {k: ('OPEN' if k == p['id'] else v)
                                for k, v in w.pr_states().items()})
                others = [q for q in table.values()
                          if q['id'] != p['id'] and q['src'] == p['src'] and
                          q['author'] != ROBOT]
                if held is None and not others:
                    left = [r for r in after if r.startswith('w/') and
                            r.endswith('/' + p['src'])]
                    kids = [c['id'] for c in table.values()
                            if c['author'] == ROBOT and c['state'] == 'OPEN'
                            and ('PR#%d ' % p['id']) in c['title']]
                    if left or kids:
                        raise Violation(
                            'C19', 'C19:declined-parent-not-cleaned:%s' %
                            rec['status'],
                            'PR #%d is declined; its evaluation ended %s '
                            'but integration branches %s / open integration '
                            'PRs %s remain' % (p['id'], rec['status'], left,
                                               kids), {})
                    w.probe('declined-parent-clean')
        # merging removes the integration branches
        for i, st in rec['prs_after'].items():
            if st == 'MERGED' and rec['prs_before'].get(i) == 'OPEN':
                p = table.get(i)
                if p and p['author'] != ROBOT and \
                        rec['status'] in ('Merged', 'SuccessMessage'):
                    left = [r for r in after if r.startswith('w/') and
                            r.endswith('/' + p['src'])]
                    others = [q for q in table.values()
                              if q['id'] != i and q['src'] == p['src']]
                    if left and not others:
                        raise Violation(
                            'C19', 'C19:merge-left-integration-branches',
                            'PR #%d was merged by job %s (%s) but %s '
                            'remain' % (i, rec['job'], rec['status'], left),
                            {})
                    w.probe('merged-and-cleaned')

    def nontrivial(self, w):
        p = w.stats['probes']
        return p.get('child-pr-created', 0) + p.get('redirect-probe', 0) > 0
