"""C08 - Bert-E never rewrites or deletes what it does not own."""
import random
import re

from .. import ops
from ..core import Violation
from ..world import DEST_PREFIXES, ROBOT
from .base import E1Prop
from .c02 import is_push_all

OWNED = ('w/', 'q/', 'tmp/')
FORCE_RE = re.compile(r"(^|\s)(--force\b|-f\b|--force-with-lease|--mirror\b)"
                      r"|(^|[\s'\"])\+[\w/:*]")


def foreign(ref):
    return not ref.startswith(OWNED) and not ref.startswith(DEST_PREFIXES) \
        and not ref.startswith('tag:')


def check_job_c08(w, rec, where='mainline'):
    before, after = rec['refs_before'], rec['refs_after']
    is_delete_job = rec['job'].startswith('api:delete_branch')
    tp = rec.get('third_party') or []
    expected = dict(before)
    for act in tp:
        if act.get('name') and act.get('sha'):
            expected[act['name']] = act['sha']
    sig = where
    # (3) no forced push
    for m in rec['mut']:
        if m['kind'] == 'push' and FORCE_RE.search(m['cmd'][len('git push'):]):
            raise Violation('C08', 'C08:forced-push:%s' % sig,
                            'Bert-E issued a forced push: %s' % m['cmd'],
                            {'cmd': m['cmd'], 'job': rec['job']})
    for ref in sorted(set(expected) | set(after)):
        old, new = expected.get(ref), after.get(ref)
        if old == new:
            continue
        if ref.startswith('tag:'):
            if old is not None:
                raise Violation(
                    'C08', 'C08:tag-changed:%s' % sig,
                    'tag %s changed or deleted by job %s' % (ref, rec['job']),
                    {'ref': ref, 'old': old, 'new': new})
            continue
        if ref.startswith(OWNED):
            continue
        if ref.startswith(DEST_PREFIXES):
            if old is None:
                continue   # created (create-branch job): C20's business
            if new is None:
                # (1b) only the delete-branch job, after an archive tag
                ok = False
                if is_delete_job:
                    seq = [m for m in rec['mut'] if m['kind'] == 'push']
                    tagged_at = None
                    deleted_at = None
                    for i, m in enumerate(seq):
                        ch = m.get('changed', {})
                        for r, (o, n) in ch.items():
                            if r.startswith('tag:') and n == old and \
                                    tagged_at is None:
                                tagged_at = i
                            if r == ref and n is None:
                                deleted_at = i
                    ok = tagged_at is not None and deleted_at is not None \
                        and tagged_at < deleted_at
                if not ok:
                    raise Violation(
                        'C08', 'C08:destination-deleted:%s' % sig,
                        'destination %s deleted by job %s without a prior '
                        'archive tag on its tip' % (ref, rec['job']),
                        {'ref': ref, 'old': old})
                continue
            # (1a) fast-forward only
            if not w.is_ancestor(old, new):
                raise Violation(
                    'C08', 'C08:destination-rewound:%s' % sig,
                    'destination %s moved %s -> %s which is not a '
                    'fast-forward (job %s)' % (ref, old[:10], new[:10],
                                               rec['job']),
                    {'ref': ref, 'old': old, 'new': new})
            continue
        # (2) a foreign ref: must be exactly what its owners left
        what = 'deleted' if new is None else (
            'created' if old is None else 'updated')
        created_in_window = any(a.get('name') == ref for a in tp)
        raise Violation(
            'C08', 'C08:foreign-ref-%s:%s%s' % (
                what, sig, ':in-window' if created_in_window else ''),
            'branch %s, which Bert-E does not own, was %s by job %s '
            '(expected %s, found %s)%s' % (
                ref, what, rec['job'], old and old[:10], new and new[:10],
                ' - it had been pushed by a third party inside the job'
                if created_in_window else ''),
            {'ref': ref, 'expected': old, 'found': new,
             'third_party': tp,
             'pushes': [m['cmd'] for m in rec['mut'] if m['kind'] == 'push']})


def check_reachability(w, where='mainline'):
    """(4) every commit that was ever a destination tip is reachable from
    some branch or tag of the remote."""
    for ref, hist in w.dest_history.items():
        for sha in hist:
            out = w.rgit('for-each-ref', '--contains', sha, '--count=1',
                         '--format=%(refname)', check=False)
            if not out.strip():
                raise Violation(
                    'C08', 'C08:unreachable-destination-commit:%s' % where,
                    'commit %s, once the tip of %s, is no longer reachable '
                    'from any branch or tag' % (sha[:10], ref),
                    {'ref': ref, 'sha': sha})


def push_sig(cmd):
    from .c02 import op_class
    return op_class({'kind': 'push', 'cmd': cmd})


class C08(E1Prop):
    ID = 'C08'
    PROFILE = {'p_queue': 0.7, 'p_stab': 0.3, 'p_hotfix': 0.2}
    WEIGHTS = {'open_pr': 6, 'ci': 3, 'ci_green_all': 6, 'deliver': 8,
               'deliver_all': 3, 'api': 1.5, 'commit': 1.5, 'comment': 0.6,
               'wcommit': 0.3, 'restart': 0.1, 'amend': 0.3, 'rebase': 0.3,
               'decline': 0.5}
    GEN_KW = {'ci_green_bias': 0.85}
    NOPS = (6, 18)
    RUN_TIMEOUT = 1200
    BUDGET = {'quick': 90, 'thorough': 900}
    EXPECTED_PROBES = ['third-party-variant', 'push-all-with-third-party']

    def gen_config(self, rng, tier):
        self.tier = tier
        return ops.gen_config(rng, self.PROFILE)

    def begin(self, w, rng):
        super().begin(w, rng)
        self.foreign = []     # live branches of third parties
        self.ghosts = []      # names of foreign branches deleted since
        self.nprobes = 0

    def next_op(self, w, rng, step, nsteps):
        if step == 0:
            self.script = []
            if w.cfg.get('hotfixes') and rng.random() < 0.5:
                # story: a hotfix branch is archived, re-created, changed
                # and archived again (the archive tag must follow the tip)
                hf = 'hotfix/' + w.cfg['hotfixes'][0]
                seq = [{'op': 'api', 'job': 'delete_branch',
                        'kwargs': {'branch': hf}},
                       {'op': 'api', 'job': 'create_branch',
                        'kwargs': {'branch': hf}},
                       {'op': 'open_pr', 'actor': 'alice',
                        'src': 'bugfix/TEST-760', 'dst': hf, 'kind': 'new'},
                       {'op': 'eval', 'p': 0},
                       {'op': 'ci_green_all', 'which': ['src', 'w']},
                       {'op': 'eval', 'p': 0},
                       {'op': 'ci_green_all', 'which': ['q']},
                       {'op': 'deliver_all'},
                       {'op': 'delete_src', 'p': 0},
                       {'op': 'api', 'job': 'delete_branch',
                        'kwargs': {'branch': hf}}]
                for o in seq:
                    o['dt'] = rng.choice([1, 5, 30])
                self.script = seq
            elif w.use_queue and rng.random() < 0.25:
                # story: a foreign branch is there while the instance works,
                # its owner deletes it, and pushes it again while a later
                # job of the same instance (one that ends with a pruning
                # push) is running
                dests = ops.dest_branches(w.cfg)
                ghost = 'feature/ghost-%d' % rng.randrange(1000)
                self.ghosts.append(ghost)
                seq = [{'op': 'third_party', 'action': {
                            'do': 'create_branch', 'name': ghost,
                            'base': None}},
                       {'op': 'open_pr', 'actor': 'alice',
                        'src': 'bugfix/TEST-780', 'dst': rng.choice(dests),
                        'kind': 'new'},
                       {'op': 'eval', 'p': 0},
                       {'op': 'ci_green_all', 'which': ['src', 'w']},
                       {'op': 'eval', 'p': 0},
                       {'op': 'third_party', 'action': {
                           'do': 'delete_branch', 'name': ghost}},
                       {'op': 'ci_green_all', 'which': ['q']},
                       {'op': 'probe', 'ev_pr': 0,
                        'pick': rng.randrange(10 ** 9),
                        'nmax': 10 if getattr(self, 'tier', 'quick') ==
                        'quick' else 0}]
                for o in seq:
                    o['dt'] = rng.choice([1, 5, 30])
                self.script = seq
                self.nprobes += 1
            elif w.use_queue and rng.random() < 0.35:
                # story: the event on an already queued PR whose queue builds
                # are green (that job evaluates the PR, then hands over to
                # the queue merge) gets the third-party placements
                dests = ops.dest_branches(w.cfg)
                seq = [{'op': 'open_pr', 'actor': 'alice',
                        'src': 'bugfix/TEST-770', 'dst': rng.choice(dests),
                        'kind': 'new'},
                       {'op': 'eval', 'p': 0},
                       {'op': 'ci_green_all', 'which': ['src', 'w']},
                       {'op': 'eval', 'p': 0},
                       {'op': 'ci_green_all', 'which': ['q']},
                       {'op': 'probe', 'ev_pr': 0,
                        'pick': rng.randrange(10 ** 9),
                        'nmax': 10 if getattr(self, 'tier', 'quick') ==
                        'quick' else 0}]
                for o in seq:
                    o['dt'] = rng.choice([1, 5, 30])
                self.script = seq
                self.nprobes += 1
        if getattr(self, 'script', None):
            return self.script.pop(0)
        if rng.random() < 0.12:
            # foreign branches come and go between jobs; a name that was
            # there once may come back later (see actions())
            if self.foreign and rng.random() < 0.6:
                name = self.foreign.pop(rng.randrange(len(self.foreign)))
                self.ghosts.append(name)
                return {'op': 'third_party', 'dt': 5, 'action': {
                    'do': 'delete_branch', 'name': name}}
            name = 'feature/ghost-%d' % rng.randrange(1000)
            self.foreign.append(name)
            return {'op': 'third_party', 'dt': 5, 'action': {
                'do': 'create_branch', 'name': name, 'base': None}}
        op = self.gen.next(w)
        tier = getattr(self, 'tier', 'quick')
        maxp = 3 if tier == 'quick' else 6
        if op['op'] == 'deliver' and self.nprobes < maxp and \
                rng.random() < 0.6:
            self.nprobes += 1
            op = {'op': 'probe', 'i': op['i'], 'dt': op['dt'],
                  'pick': rng.randrange(10 ** 9),
                  'nmax': 7 if tier == 'quick' else 0}
        elif op['op'] == 'api' and self.nprobes < maxp and \
                rng.random() < 0.7:
            self.nprobes += 1
            op = {'op': 'probe', 'api': op, 'dt': op['dt'],
                  'pick': rng.randrange(10 ** 9),
                  'nmax': 7 if tier == 'quick' else 0}
        return op

    def actions(self, w, r, npush, cmds=()):
        """One third-party action per (push index, action kind), plus
        placements before other git commands of the job (the windows that
        open between the clone and each push)."""
        srcs = [p['src'] for p in w.pr_table()
                if p['author'] != ROBOT and p['state'] == 'OPEN' and
                p['src'] in w.heads()]
        out = []
        idx = [i for i, c in enumerate(cmds)
               if not c.startswith('git push')]
        remote = [i for i in idx if cmds[i].startswith(
            ('git ls-remote', 'git fetch', 'git remote update',
             'git for-each-ref', 'git clone'))]
        picks = set()
        if idx:
            picks.update(r.sample(idx, min(3, len(idx))))
        if remote:
            picks.update(r.sample(remote, min(3, len(remote))))
            picks.add(remote[-1])
        for n in sorted(picks):
            name = r.choice(['feature/tp-%d', 'user/dave/wip-%d',
                             'tp-%d']) % r.randrange(1000)
            ghosts = [g for g in getattr(self, 'ghosts', [])
                      if g not in w.heads()]
            if ghosts and r.random() < 0.7:
                # a branch name that existed earlier, was deleted by its
                # owner, and is pushed again now
                name = r.choice(ghosts)
            out.append({'kind': 'thirdparty', 'cmd': n, 'action': {
                'do': 'create_branch', 'name': name,
                'base': r.choice(sorted(w.heads()) or ['none'])}})
        for j in range(npush):
            n = r.randrange(1000)
            name = r.choice(['feature/tp-%d', 'user/dave/wip-%d', 'wip/q/%d',
                             'quality/x-%d', 'tp-%d', 'bugfix/w/5.1/tp-%d'])
            out.append({'kind': 'thirdparty', 'push': j, 'action': {
                'do': 'create_branch', 'name': name % n,
                'base': r.choice(sorted(w.heads()) or ['none'])}})
            if srcs:
                out.append({'kind': 'thirdparty', 'push': j, 'action': {
                    'do': 'push_src', 'name': r.choice(srcs)}})
                out.append({'kind': 'thirdparty', 'push': j, 'action': {
                    'do': 'force_src', 'name': r.choice(srcs)}})
        return out

    def apply(self, w, op):
        if op['op'] != 'probe':
            return ops.apply_op(w, op)
        w.stats['ops'] += 1
        w.clock.advance(op.get('dt', 1))
        if 'api' in op:
            a = op['api']
            ev = {'k': 'api', 'job': a['job'], 'kwargs': a.get('kwargs')
                  or {}, 'json': a.get('json') or {}}
        elif 'ev_pr' in op:
            if op['ev_pr'] >= len(w.user_prs):
                w.step_digest(op, [])
                return []
            ev = {'k': 'pr', 'id': w.user_prs[op['ev_pr']], 'why': 'story'}
        else:
            if not w.events:
                w.step_digest(op, [])
                return []
            ev = w.events.pop(op['i'] % len(w.events))

        def clean(w_):
            recs = w_.deliver(dict(ev), record_cmds=True)
            rec = recs[0] if recs else {'mut': [], 'cmds': []}
            return [[m['cmd'] for m in rec['mut'] if m['kind'] == 'push'],
                    rec['cmds']]
        pushes, cmds = w.fork_variant(clean)
        if 'plans' not in op:
            r = random.Random(op['pick'])
            plans = self.actions(w, r, len(pushes), cmds)
            if op.get('nmax') and len(plans) > op['nmax']:
                plans = r.sample(plans, op['nmax'])
            op['plans'] = plans
            op['pushes_clean'] = pushes
        for pi, plan in enumerate(list(op['plans'])):
            import time
            if getattr(w, 'deadline', None) and pi > 0 and \
                    time.time() > w.deadline:
                w.probe('probe-truncated-by-wall-budget')
                break

            def variant(w_, plan=plan):
                recs = w_.deliver(dict(ev), plan=dict(plan))
                j = plan.get('push', -1)
                if 'cmd' in plan:
                    c = cmds[plan['cmd']] if plan['cmd'] < len(cmds) else ''
                    sig = '%s@before:%s' % (plan['action']['do'],
                                            ' '.join(c.split()[:2]))
                else:
                    sig = '%s@%s' % (plan['action']['do'],
                                     push_sig(pushes[j]) if j < len(pushes)
                                     else 'push')
                for rec in recs:
                    check_job_c08(w_, rec, sig)
                check_reachability(w_, sig)
                return {'fired': bool(recs and recs[0]['fired']),
                        'all': bool(0 <= j < len(pushes) and
                                    is_push_all(pushes[j])),
                        'status': recs[0]['status'] if recs else None}
            try:
                res = w.fork_variant(variant)
            except Violation as v:
                op['plans'] = [plan]
                v.detail['plan'] = plan
                v.detail['event'] = ev
                raise
            w.probe('third-party-variant')
            if res['fired']:
                w._count_fault('thirdparty:' + plan['action']['do'] + (
                    '@cmd' if 'cmd' in plan else '@push'))
                if res['all']:
                    w.probe('push-all-with-third-party')
        recs = w.deliver(ev)
        w.step_digest(op, recs)
        return recs

    def check_job(self, w, rec):
        check_job_c08(w, rec)
        check_reachability(w)

    def nontrivial(self, w):
        return w.stats['probes'].get('third-party-variant', 0) > 0
