"""C03 - with queues on, destinations only advance to CI-validated
commits."""
from .. import ops
from ..core import Violation
from ..world import ROBOT
from .base import E1Prop
from .common import (moved_destinations, newly_merged, build_bypassed,
                     job_kind)


class C03(E1Prop):
    ID = 'C03'
    PROFILE = {'p_queue': 1.0, 'p_skip_queue': 0.5, 'p_no_octopus': 0.3,
               'p_stab': 0.3, 'p_hotfix': 0.25}
    WEIGHTS = {'open_pr': 6, 'ci': 9, 'ci_green_all': 3, 'deliver': 9,
               'deliver_all': 3, 'api': 1.2, 'commit': 1.5, 'comment': 0.8,
               'wcommit': 0.1, 'restart': 0.1, 'rebase': 0.3,
               'merge_dst': 0.4}
    GEN_KW = {'ci_green_bias': 0.6,
              'api_jobs': ['force_merge', 'rebuild_queues', 'eval_pr',
                           'delete_queues'],
              'comment_texts': ['@%s bypass_build_status' % ROBOT,
                                '/bypass_build_status', '/no_octopus',
                                '@%s status' % ROBOT, 'ship it',
                                '@%s create_pull_requests' % ROBOT]}
    EXPECTED_PROBES = ['destination-advanced-in-queue-mode', 'queue-merge']

    def begin(self, w, rng):
        super().begin(w, rng)
        # comments mostly from the admin, so that bypasses take effect
        orig = self.gen.g_comment

        def g_comment(w_):
            op = orig(w_)
            if op and rng.random() < 0.7:
                op['actor'] = 'root'
            return op
        self.gen.g_comment = g_comment

    def next_op(self, w, rng, step, nsteps):
        if step == 0:
            self.script = []
            dests = ops.dest_branches(w.cfg)
            devs = [d for d in dests if d.startswith('development/')]
            if w.use_queue and w.cfg.get('hotfixes') and \
                    rng.random() < 0.5:
                # story: a hotfix PR and a development PR queued one after
                # the other (either order of ids); the hotfix queue build is
                # not green, the other one is
                hf = 'hotfix/' + w.cfg['hotfixes'][0]
                devs = [d for d in dests if d.startswith('development/')]
                pair = [('bugfix/TEST-931', hf),
                        ('bugfix/TEST-932', rng.choice(devs))]
                if rng.random() < 0.4:
                    pair.reverse()
                seq = []
                for src, d in pair:
                    # (branched from the commit before the tip, so that its
                    # queue commit is a merge commit nobody built before)
                    seq.append({'op': 'open_pr', 'actor': 'alice',
                                'src': src, 'dst': d, 'kind': 'new',
                                'from': 'old'})
                seq += [{'op': 'eval', 'p': 0}, {'op': 'eval', 'p': 1},
                        {'op': 'ci_green_all', 'which': ['src', 'w']},
                        {'op': 'eval', 'p': 0}, {'op': 'eval', 'p': 1}]
                hi = 0 if pair[0][1] == hf else 1
                for i in (0, 1):
                    st = rng.choice(['FAILED', 'STOPPED', 'INPROGRESS']) \
                        if i == hi else 'SUCCESSFUL'
                    for vi in range(4):
                        seq.append({'op': 'ci', 'state': st,
                                    'target': ['qw', i, vi],
                                    'event_anyway': True})
                seq.append({'op': 'deliver_all'})
                for o in seq:
                    o['dt'] = rng.choice([1, 5, 30])
                self.script = seq
            elif len(devs) >= 2 and rng.random() < 0.45:
                # story: A (early destination) gets its integration
                # branches built and green, meanwhile B lands on a later
                # destination, then A is evaluated again
                lo = rng.choice(dests[:-1])
                later = [d for d in devs if dests.index(d) > dests.index(lo)]
                hi = rng.choice(later) if later else devs[-1]
                seq = [
                    {'op': 'open_pr', 'actor': 'alice', 'src':
                     'bugfix/TEST-901', 'dst': lo, 'kind': 'new'},
                    {'op': 'eval', 'p': 0},
                    {'op': 'open_pr', 'actor': 'bob', 'src':
                     'feature/TEST-902', 'dst': hi, 'kind': 'new'},
                    {'op': 'eval', 'p': 1},
                    {'op': 'ci_green_all', 'which': ['src', 'w']},
                    {'op': 'eval', 'p': rng.choice([1, 1, 0])},
                    {'op': 'ci_green_all', 'which': rng.choice(
                        [['q'], ['src', 'w', 'q']])},
                    {'op': 'deliver_all'},
                    {'op': 'eval', 'p': 0},
                    {'op': 'eval', 'p': 1},
                ]
                for o in seq:
                    o['dt'] = rng.choice([1, 5, 30])
                # sprinkle a little noise
                for i in range(rng.randint(0, 3)):
                    seq.insert(rng.randrange(2, len(seq)),
                               self.gen.next(w))
                self.script = seq
            elif len(dests) >= 3 and rng.random() < 0.3:
                # story: integration branches built and green, then somebody
                # pushes on one of them (not the last) and CI follows up on
                # every tip before the robot looks again
                d = rng.choice(dests[:-2])
                seq = [
                    {'op': 'open_pr', 'actor': 'alice', 'src':
                     'bugfix/TEST-921', 'dst': d, 'kind': 'new'},
                    {'op': 'eval', 'p': 0},
                    {'op': 'ci_green_all', 'which': ['src', 'w']},
                    {'op': 'wcommit', 'p': 0, 'vi': rng.choice([0, 0, 1]),
                     'kind': 'plain'},
                    {'op': 'ci_green_all', 'which': ['src', 'w']},
                    {'op': 'eval', 'p': 0},
                    {'op': 'deliver_all'},
                ]
                for o in seq:
                    o['dt'] = rng.choice([1, 5, 30])
                self.script = seq
            elif w.use_queue and rng.random() < 0.2:
                # story: two PRs queued on the same destination; somebody
                # fast-forwards that destination by hand to the second PR's
                # branch; only the first PR's queue builds are green
                d = rng.choice(dests)
                seq = [{'op': 'open_pr', 'actor': 'alice',
                        'src': 'bugfix/TEST-951', 'dst': d, 'kind': 'new',
                        'from': 'old'},
                       {'op': 'open_pr', 'actor': 'bob',
                        'src': 'bugfix/TEST-952', 'dst': d, 'kind': 'new'},
                       {'op': 'eval', 'p': 0}, {'op': 'eval', 'p': 1},
                       {'op': 'ci_green_all', 'which': ['src', 'w']},
                       {'op': 'eval', 'p': 0}, {'op': 'eval', 'p': 1},
                       {'op': 'ff_dst', 'p': 1}]
                for vi in range(5):
                    seq.append({'op': 'ci', 'state': 'SUCCESSFUL',
                                'target': ['qw', 0, vi]})
                seq.append({'op': 'deliver_all'})
                for o in seq:
                    o['dt'] = rng.choice([1, 5, 30])
                self.script = seq
            elif w.use_queue and w.cfg.get('stabs') and rng.random() < 0.5:
                # story: a PR on a stabilization branch is queued; every
                # queue commit turns green except the one of the
                # stabilization version
                stab = [d for d in dests if d.startswith('stabilization/')]
                seq = [{'op': 'open_pr', 'actor': 'alice',
                        'src': 'bugfix/TEST-941', 'dst': rng.choice(stab),
                        'kind': 'new', 'from': 'old'},
                       {'op': 'eval', 'p': 0},
                       {'op': 'ci_green_all', 'which': ['src', 'w']},
                       {'op': 'eval', 'p': 0},
                       {'op': 'ci_green_all', 'which': ['q']},
                       {'op': 'ci', 'state': rng.choice(
                           ['FAILED', 'INPROGRESS', 'STOPPED']),
                        'target': ['qw_stab', 0], 'event_anyway': True},
                       {'op': 'deliver_all'}]
                for o in seq:
                    o['dt'] = rng.choice([1, 5, 30])
                self.script = seq
            elif w.use_queue and rng.random() < 0.3:
                # story: a queued PR whose queue builds end in any state of
                # the host contract (STOPPED = cancelled build included),
                # some of them turning green afterwards
                # (two PRs: the queue commits of the second one are new
                # merge commits that no earlier report can have covered)
                d = rng.choice(dests)
                seq = [
                    {'op': 'open_pr', 'actor': 'alice', 'src':
                     'bugfix/TEST-911', 'dst': d, 'kind': 'new'},
                    {'op': 'open_pr', 'actor': 'bob', 'src':
                     'bugfix/TEST-912', 'dst': rng.choice([d, d, rng.choice(
                         dests)]), 'kind': 'new'},
                    {'op': 'eval', 'p': 0},
                    {'op': 'eval', 'p': 1},
                    {'op': 'ci_green_all', 'which': ['src', 'w']},
                    {'op': 'eval', 'p': 0},
                    {'op': 'eval', 'p': 1},
                    {'op': 'ci_green_all', 'which': ['q'],
                     'state': rng.choice(['STOPPED', 'STOPPED', 'FAILED',
                                          'INPROGRESS', 'NOTSTARTED'])},
                    {'op': 'deliver_all'},
                ]
                for o in seq:
                    o['dt'] = rng.choice([1, 5, 30])
                self.script = seq
        if getattr(self, 'script', None):
            return self.script.pop(0)
        return self.gen.next(w)

    def check_job(self, w, rec):
        if not w.use_queue or not w.build_key:
            return
        moved = moved_destinations(rec)
        if not moved:
            return
        w.probe('destination-advanced-in-queue-mode')
        if rec['status'] == 'Merged':
            w.probe('queue-merge')
        elif rec['status'] == 'SuccessMessage':
            w.probe('direct-merge-queue-skipped')
        if rec['job'].startswith('api:force_merge'):
            w.probe('force-merge')
            return
        merged = newly_merged(rec)
        for ref, old, new in moved:
            if w.green(new):
                continue
            if any(build_bypassed(w, pid) for pid in merged):
                w.probe('advance-exempt-by-bypass')
                continue
            mode = 'no_octopus' if self.no_octopus(w, merged) else 'octopus'
            key = 'C03:unbuilt-tip:%s:%s:%s' % (job_kind(rec),
                                                rec['status'], mode)
            if rec['status'] == 'Merged':
                # queue merge: was the build check made on a later queued
                # PR's commit of the same version (which contains this one)?
                later_green = False
                for r, sha in rec['refs_before'].items():
                    if r.startswith('q/w/') and sha != new and \
                            w.green(sha) and w.is_ancestor(new, sha) and \
                            r.split('/')[3] == ref.split('/', 1)[1]:
                        later_green = True
                key = 'C03:unbuilt-tip:queue-merge:%s:%s' % (
                    ref.split('/')[0], 'green-only-on-a-later-pr'
                    if later_green else 'never-green')
            raise Violation(
                'C03', key,
                '%s advanced to %s, a commit on which build key %r was '
                'never reported SUCCESSFUL (job %s, status %s, merged PRs '
                '%s)' % (ref, new[:10], w.build_key, rec['job'],
                         rec['status'], merged),
                {'ref': ref, 'new': new, 'old': old, 'merged': merged,
                 'reports_on_new_tip': [h for h in w.status_history
                                        if h[0] == new],
                 'pushes': [m['cmd'] for m in rec['mut']
                            if m['kind'] == 'push']})

    def no_octopus(self, w, merged):
        if 'no_octopus' in w.cfg.get('cmd_line_options', []):
            return True
        for pid in merged:
            for c in w.comments(pid):
                if 'no_octopus' in c['text'] and c['by'] != ROBOT:
                    return True
        return False

    def nontrivial(self, w):
        return w.stats['probes'].get(
            'destination-advanced-in-queue-mode', 0) > 0
