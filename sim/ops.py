"""World operations for E1: applicators (deterministic, index-addressed,
degrading to no-ops) and the seeded generator."""
import os

from .world import ROBOT, DEST_PREFIXES, ver_key
from .core import HarnessError

FEATURE_PREFIXES = ('improvement', 'bugfix', 'feature', 'project',
                    'documentation', 'design', 'dependabot', 'epic', 'bug')
CI_STATES = ('SUCCESSFUL', 'FAILED', 'STOPPED', 'INPROGRESS', 'NOTSTARTED')


# ---------------------------------------------------------------------------
# helpers

def user_pr(w, p):
    if p is None or p < 0 or p >= len(w.user_prs):
        return None
    return w.host_pr(w.user_prs[p])


def wbranches_of(w, pr):
    """Remote w/ branches of a PR, ordered by version."""
    src = pr.src_branch
    out = []
    for h in w.heads():
        if h.startswith('w/') and h.endswith('/' + src):
            ver = h[2:-len(src) - 1]
            if '/' not in ver:
                out.append((ver, h))

    def key(x):
        try:
            return [int(i) for i in x[0].split('.')]
        except ValueError:
            return [10 ** 6]
    return [h for _, h in sorted(out, key=key)]


def qwbranches_of(w, pr):
    pre = 'q/w/%d/' % pr.id
    out = [h for h in w.heads() if h.startswith(pre)]

    def key(h):
        try:
            return [int(i) for i in h[len(pre):].split('/')[0].split('.')]
        except ValueError:
            return [10 ** 6]
    return sorted(out, key=key)


def qbranches(w):
    out = [h for h in w.heads() if h.startswith('q/') and
           not h.startswith('q/w/')]

    def key(h):
        try:
            return [int(i) for i in h[2:].split('.')]
        except ValueError:
            return [10 ** 6]
    return sorted(out, key=key)


def checkout_remote(w, branch, actor):
    w.ugit('fetch', '-q', '--prune', 'origin', actor=actor)
    rc, _ = w.ugit('checkout', '-q', '-B', branch, 'origin/' + branch,
                   actor=actor, check=False)
    return rc == 0


def commit_kind(w, kind, actor, tag=''):
    """Create one commit in the user clone on the current branch."""
    n = w.ncommit + 1
    if kind == 'shared':
        return w._ucommit('shared.txt', 'edit shared' + tag, actor,
                          content='shared edited by c%d' % n)
    if kind == 'ver':
        return w._ucommit('ver.txt', 'edit ver' + tag, actor,
                          content='ver edited by c%d' % n)
    return w._ucommit('c%d.txt' % n, 'change' + tag, actor)


# ---------------------------------------------------------------------------
# applicators; each returns a list of job records (usually empty)

def apply_op(w, op):
    w.stats['ops'] += 1
    w.clock.advance(op.get('dt', 1))
    fn = APPLY.get(op['op'])
    if fn is None:
        raise HarnessError('unknown op %r' % (op,))
    recs = fn(w, op) or []
    w.step_digest(op, recs)
    return recs


def op_open_pr(w, op):
    actor, src, dst = op['actor'], op['src'], op['dst']
    heads = w.heads()
    if src in heads:
        return
    base = dst
    if dst not in heads:
        if not op.get('create_dst'):
            return
        devs = sorted(h for h in heads if h.startswith('development/'))
        if not devs:
            return
        w.ugit('fetch', '-q', '--prune', 'origin')
        w.ugit('checkout', '-q', '-B', dst, 'origin/' + devs[0])
        w.ugit('push', '-q', 'origin', dst)
    w.ugit('fetch', '-q', '--prune', 'origin', actor=actor)
    if op.get('base') and op['base'] in heads:
        # cut from another branch than the destination (a backport shape)
        base = op['base']
    start = 'origin/' + base
    same = None
    if op.get('same_as') is not None:
        # a second branch carrying the very commits of an earlier PR
        prs = w.user_prs
        shas = getattr(w, 'src_commits', {}).get(
            prs[op['same_as'] % len(prs)]) if prs else None
        if not shas:
            return
        same = shas[-1]
        start = same
    if op.get('from') == 'old' and same is None:
        rc, out = w.ugit('rev-parse', '-q', '--verify', start + '~1',
                         check=False)
        if rc == 0:
            start = start + '~1'
    rc, out = w.ugit('checkout', '-q', '-B', src, start, actor=actor,
                     check=False)
    if rc != 0:
        return
    shas = []
    if same is not None:
        shas = list(w.src_commits[w.user_prs[op['same_as'] %
                                             len(w.user_prs)]])
    else:
        for i in range(op.get('ncommits', 1)):
            shas.append(commit_kind(w, op.get('kind', 'new'), actor))
    rc, out = w.ugit('push', '-q', 'origin', src, actor=actor, check=False)
    if rc != 0:
        return
    pr = w.repos[actor].create_pull_request(
        title=op.get('title', 'PR %s' % src), name='name', src_branch=src,
        dst_branch=dst, close_source_branch=True, description='')
    w.user_prs.append(pr.id)
    w.src_commits = getattr(w, 'src_commits', {})
    w.src_commits[pr.id] = shas
    if op.get('drop_dst') and dst not in heads:
        # the destination (created for this PR only) disappears again
        # before the robot gets to see the pull request
        w.ugit('push', '-q', 'origin', ':' + dst, check=False)
    w.events.append({'k': 'pr', 'id': pr.id, 'why': 'opened'})


def _src_op(w, op, fn, force=False):
    pr = user_pr(w, op.get('p'))
    if pr is None or pr.status != 'OPEN':
        return
    actor = pr.author
    if not checkout_remote(w, pr.src_branch, actor):
        return
    if fn(pr, actor) is False:
        return
    args = ['push', '-q']
    if force:
        args.append('-f')
    rc, _ = w.ugit(*args, 'origin', pr.src_branch, actor=actor, check=False)
    if rc == 0:
        w.events.append({'k': 'pr', 'id': pr.id, 'why': op['op']})
        # remember every commit that has been on this source branch
        known = getattr(w, 'src_commits', {}).setdefault(pr.id, [])
        if pr.dst_branch in w.heads():
            out = w.ugit('rev-list', '--no-merges', 'HEAD',
                         '^origin/' + pr.dst_branch)[1]
            for sha in out.split():
                if sha not in known:
                    known.append(sha)


def op_commit(w, op):
    _src_op(w, op, lambda pr, a: commit_kind(w, op.get('kind', 'new'), a))


def op_amend(w, op):
    def fn(pr, a):
        w.ncommit += 1
        w.ugit('commit', '-q', '--amend', '-m',
               'amended [c%d]' % w.ncommit, actor=a)
    _src_op(w, op, fn, force=True)


def op_rebase(w, op):
    def fn(pr, a):
        if pr.dst_branch not in w.heads():
            return False
        rc, _ = w.ugit('rebase', '-q', 'origin/' + pr.dst_branch, actor=a,
                       check=False)
        if rc != 0:
            w.ugit('rebase', '--abort', actor=a, check=False)
            return False
    _src_op(w, op, fn, force=True)


def op_merge_dst(w, op):
    """Author merges the destination into the source branch."""
    def fn(pr, a):
        if pr.dst_branch not in w.heads():
            return False
        rc, _ = w.ugit('merge', '-q', '--no-edit', 'origin/' + pr.dst_branch,
                       actor=a, check=False)
        if rc != 0:
            w.ugit('merge', '--abort', actor=a, check=False)
            return False
    _src_op(w, op, fn)


def op_reset_src(w, op):
    def fn(pr, a):
        n = op.get('n', 1)
        rc, out = w.ugit('rev-list', '--count',
                         'origin/%s..HEAD' % pr.dst_branch, check=False)
        try:
            ahead = int(out.strip())
        except ValueError:
            return False
        if ahead <= n:
            return False
        w.ugit('reset', '-q', '--hard', 'HEAD~%d' % n, actor=a)
    _src_op(w, op, fn, force=True)


def op_decline(w, op):
    pr = user_pr(w, op.get('p'))
    if pr is None or pr.status != 'OPEN':
        return
    w.host_pr(pr.id, pr.author).decline()
    w.events.append({'k': 'pr', 'id': pr.id, 'why': 'declined'})


def op_retitle(w, op):
    """The author edits the title of the pull request."""
    pr = user_pr(w, op.get('p'))
    if pr is None or pr.status != 'OPEN':
        return
    hp = w.host_pr(pr.id, pr.author)
    if hp is None:
        return
    if not hasattr(w, 'old_titles'):
        w.old_titles = {}
    w.old_titles.setdefault(int(pr.id), []).append(hp.title)
    hp['title'] = op.get('title', 'a better title')
    w.events.append({'k': 'pr', 'id': pr.id, 'why': 'retitled'})


def op_delete_src(w, op):
    pr = user_pr(w, op.get('p'))
    if pr is None or pr.src_branch not in w.heads():
        return
    w.ugit('push', '-q', 'origin', ':' + pr.src_branch, check=False)
    w.events.append({'k': 'pr', 'id': pr.id, 'why': 'src-deleted'})


def op_delete_w(w, op):
    """Somebody deletes one integration branch of the PR on the remote."""
    pr = user_pr(w, op.get('p'))
    if pr is None:
        return
    wbs = wbranches_of(w, pr)
    if not wbs:
        return
    name = wbs[op.get('vi', 0) % len(wbs)]
    w.ugit('push', '-q', 'origin', ':' + name, check=False)
    w.events.append({'k': 'pr', 'id': pr.id, 'why': 'w-deleted'})


def op_wcommit(w, op):
    pr = user_pr(w, op.get('p'))
    if pr is None:
        return
    wbs = wbranches_of(w, pr)
    if not wbs:
        return
    name = wbs[op.get('vi', 0) % len(wbs)]
    actor = op.get('actor') or pr.author
    if not checkout_remote(w, name, actor):
        return
    if op.get('kind') == 'merge':
        # a hand-made merge commit (conflict-resolution style): merge the
        # source branch with --no-ff and an extra change
        rc, _ = w.ugit('merge', '-q', '--no-ff', '--no-commit',
                       'origin/' + pr.src_branch, actor=actor, check=False)
        n = w.ncommit = w.ncommit + 1
        with open(os.path.join(w.userdir, 'manual_%d.txt' % n), 'w') as f:
            f.write('manual resolution %d\n' % n)
        w.ugit('add', '-A', actor=actor)
        rc, _ = w.ugit('commit', '-q', '-m', 'manual merge [c%d]' % n,
                       actor=actor, check=False)
        if rc != 0:
            w.ugit('merge', '--abort', actor=actor, check=False)
            w.ugit('reset', '-q', '--hard', actor=actor, check=False)
            return
        sha = w.ugit('rev-parse', 'HEAD')[1].strip()
    else:
        sha = w._ucommit('manual_%d.txt' % (w.ncommit + 1), 'manual on w',
                         actor)
    rc, _ = w.ugit('push', '-q', 'origin', name, actor=actor, check=False)
    if rc == 0:
        w.manual_commits = getattr(w, 'manual_commits', [])
        w.manual_commits.append({'sha': sha, 'branch': name, 'pr': pr.id})
        w.events.append({'k': 'pr', 'id': pr.id, 'why': 'wcommit'})
        w.events.append({'k': 'commit', 'sha': sha, 'why': 'wcommit'})


def op_resolve_conflict(w, op):
    """The author follows the procedure of the robot's Conflict message
    (on the feature branch, or on the integration branch named there)."""
    import re
    pr = user_pr(w, op.get('p'))
    if pr is None or pr.status != 'OPEN':
        return
    msg = None
    for c in reversed(w.comments(pr.id)):
        if c['by'] == ROBOT:
            if c['text'].lstrip().startswith('# Conflict'):
                msg = c['text']
            break
    if not msg:
        return
    actor = pr.author
    heads = w.heads()

    def take(side):
        # resolve every conflicted path by taking one side
        w.ugit('checkout', '--' + side, '--', '.', actor=actor, check=False)
        w.ugit('add', '-A', actor=actor)
        w.ncommit += 1
        rc, _ = w.ugit('commit', '-q', '-m',
                       'conflict resolution [c%d]' % w.ncommit, actor=actor,
                       check=False)
        return rc == 0

    def merge(ref):
        rc, _ = w.ugit('merge', '-q', '--no-edit', ref, actor=actor,
                       check=False)
        if rc != 0:
            return take(op.get('side', 'theirs'))
        return True
    w.ugit('fetch', '-q', '--prune', 'origin', actor=actor)
    if 'on **the feature branch**' in msg:
        if pr.src_branch not in heads or pr.dst_branch not in heads:
            return
        w.ugit('checkout', '-q', '-B', pr.src_branch,
               'origin/' + pr.src_branch, actor=actor)
        if not merge('origin/' + pr.dst_branch):
            w.ugit('merge', '--abort', actor=actor, check=False)
            return
        rc, _ = w.ugit('push', '-q', 'origin', pr.src_branch, actor=actor,
                       check=False)
        if rc == 0:
            w.events.append({'k': 'pr', 'id': pr.id, 'why': 'resolved'})
        return
    m = re.search(r'integration branch `([^`]+)` with contents from '
                  r'`([^`]+)`\s+and `([^`]+)`', msg)
    if not m:
        return
    wname, source, dst = m.group(1), m.group(2), m.group(3)
    if dst not in heads or source not in heads:
        return
    empty = 'I have not created the integration branch' in msg
    if empty or wname not in heads:
        w.ugit('checkout', '-q', '-B', wname, 'origin/' + dst, actor=actor)
    else:
        w.ugit('checkout', '-q', '-B', wname, 'origin/' + wname,
               actor=actor)
        if not merge('origin/' + dst):
            w.ugit('merge', '--abort', actor=actor, check=False)
            return
    before = w.ugit('rev-parse', 'HEAD')[1].strip()
    if not merge('origin/' + source):
        w.ugit('merge', '--abort', actor=actor, check=False)
        return
    sha = w.ugit('rev-parse', 'HEAD')[1].strip()
    rc, _ = w.ugit('push', '-q', '-u', 'origin', wname, actor=actor,
                   check=False)
    if rc == 0:
        if sha != before:
            w.manual_commits = getattr(w, 'manual_commits', [])
            w.manual_commits.append({'sha': sha, 'branch': wname,
                                     'pr': pr.id, 'kind': 'resolution'})
        w.probe('conflict-resolved-by-hand')
        w.events.append({'k': 'pr', 'id': pr.id, 'why': 'resolved'})
        w.events.append({'k': 'commit', 'sha': sha, 'why': 'resolved'})


def _review(method):
    def fn(w, op):
        pr = user_pr(w, op.get('p'))
        if pr is None:
            return
        hp = w.host_pr(pr.id, op['actor'])
        if method == 'dismiss':
            hp.dismiss(None)
        else:
            getattr(hp, method)()
        w.events.append({'k': 'pr', 'id': pr.id, 'why': method})
    return fn


def op_comment(w, op):
    pr = user_pr(w, op.get('p'))
    if pr is None:
        return
    w.host_pr(pr.id, op['actor']).add_comment(op['text'])
    w.events.append({'k': 'pr', 'id': pr.id, 'why': 'comment'})


def op_delete_comment(w, op):
    pr = user_pr(w, op.get('p'))
    if pr is None:
        return
    cs = [c for c in w.mock.Comment.items
          if c.pull_request_id == pr.id and c.user['username'] != ROBOT]
    if not cs:
        return
    c = cs[op.get('ci', 0) % len(cs)]
    if op.get('match') and op['match'] not in c.content['raw']:
        cand = [x for x in cs if op['match'] in x.content['raw']]
        if not cand:
            return
        c = cand[-1]
    w.mock.Comment.items.remove(c)
    w.events.append({'k': 'pr', 'id': pr.id, 'why': 'comment-deleted'})


def resolve_target(w, target):
    """Symbolic commit reference -> sha (or None)."""
    kind = target[0]
    heads = w.heads()
    if kind == 'src':
        pr = user_pr(w, target[1])
        return heads.get(pr.src_branch) if pr else None
    if kind == 'w':
        pr = user_pr(w, target[1])
        if not pr:
            return None
        wbs = wbranches_of(w, pr)
        return heads[wbs[target[2] % len(wbs)]] if wbs else None
    if kind == 'qw':
        pr = user_pr(w, target[1])
        if not pr:
            return None
        qs = qwbranches_of(w, pr)
        return heads[qs[target[2] % len(qs)]] if qs else None
    if kind == 'qw_stab':
        # the queue commit of the PR on its stabilization version (x.y.z)
        pr = user_pr(w, target[1])
        if not pr:
            return None
        qs = [h for h in qwbranches_of(w, pr)
              if h.split('/')[3].count('.') == 2]
        return heads[qs[0]] if qs else None
    if kind == 'q':
        qs = qbranches(w)
        return heads[qs[target[1] % len(qs)]] if qs else None
    if kind == 'stale':
        tips = [s for s in w.robot_tips if s not in heads.values()]
        return tips[target[1] % len(tips)] if tips else None
    if kind == 'branch':
        return heads.get(target[1])
    if kind == 'sha':
        return target[1]
    return None


def op_ci(w, op):
    sha = resolve_target(w, op['target'])
    if not sha:
        return
    w.repos['ci'].set_build_status(revision=sha, key=op.get(
        'key') or w.build_key, state=op['state'])
    if op['state'] != 'INPROGRESS' or op.get('event_anyway'):
        w.events.append({'k': 'commit', 'sha': sha, 'why': 'ci'})


def ci_green_all(w, which=('src', 'w', 'q'), state='SUCCESSFUL'):
    heads = w.heads()
    n = 0
    srcs = set()
    for p in w.pr_table():
        if p['author'] != ROBOT and p['state'] == 'OPEN':
            srcs.add(p['src'])
    for h, sha in sorted(heads.items()):
        if h.startswith('q/'):
            ok = 'q' in which
        elif h.startswith('w/'):
            ok = 'w' in which
        elif h in srcs:
            ok = 'src' in which
        else:
            ok = False
        if ok and (state != 'SUCCESSFUL' or not _currently_green(w, sha)):
            w.repos['ci'].set_build_status(revision=sha, key=w.build_key,
                                           state=state)
            w.events.append({'k': 'commit', 'sha': sha, 'why': 'ci-green'
                             if state == 'SUCCESSFUL' else 'ci-' + state})
            n += 1
    return n


def _currently_green(w, sha):
    return w.mock.Repository.revisions.get((sha, w.build_key)) == 'SUCCESSFUL'


def op_ci_green_all(w, op):
    ci_green_all(w, tuple(op.get('which', ('src', 'w', 'q'))),
                 op.get('state', 'SUCCESSFUL'))


def op_jira(w, op):
    do = op['do']
    key = op['key']
    if do == 'set':
        w.jira.issues[key] = {'type': op.get('type', 'Bug'),
                              'fixVersions': list(op.get('fix', []))}
    elif do == 'delete':
        w.jira.issues.pop(key, None)
    elif do == 'fail':
        w.jira.fail_next = op.get('code', 500)


def op_api(w, op):
    ev = {'k': 'api', 'job': op['job'], 'kwargs': op.get('kwargs') or {},
          'json': op.get('json') or {}}
    if op.get('queue_only'):
        w.events.append(ev)
        return
    return w.deliver(ev, plan=op.get('plan'))


def op_tag(w, op):
    on = op['on']
    if on not in w.heads() or ('tag:' + op['name']) in w.refs():
        return
    w.ugit('fetch', '-q', '--prune', 'origin')
    rc, _ = w.ugit('tag', op['name'], 'origin/' + on, check=False)
    if rc == 0:
        w.ugit('push', '-q', 'origin', 'refs/tags/' + op['name'],
               check=False)


def op_deliver(w, op):
    if not w.events:
        return
    i = op.get('i', 0) % len(w.events)
    ev = w.events.pop(i)
    return w.deliver(ev, plan=op.get('plan'))


def op_dup(w, op):
    if not w.events:
        return
    i = op.get('i', 0) % len(w.events)
    w.events.append(dict(w.events[i]))
    w._count_fault('dup')


def op_drop(w, op):
    if not w.events:
        return
    i = op.get('i', 0) % len(w.events)
    w.events.pop(i)
    w._count_fault('drop')


def op_deliver_all(w, op):
    recs = []
    guard = 0
    while w.events and guard < op.get('max', 30):
        guard += 1
        ev = w.events.pop(0)
        # plain duplicate suppression of identical pending events
        w.events = [e for e in w.events if not _same_event(e, ev)]
        recs.extend(w.deliver(ev))
    return recs


def _same_event(a, b):
    if a['k'] != b['k']:
        return False
    if a['k'] == 'pr':
        return a['id'] == b['id']
    if a['k'] == 'commit':
        return a['sha'] == b['sha']
    return False


def op_eval(w, op):
    """Direct evaluation of a user PR (as a PR webhook would cause)."""
    pr = user_pr(w, op.get('p'))
    if pr is None:
        return
    return w.deliver({'k': 'pr', 'id': pr.id, 'why': 'eval'},
                     plan=op.get('plan'))


def op_eval_commit(w, op):
    sha = resolve_target(w, op['target'])
    if not sha:
        return
    return w.deliver({'k': 'commit', 'sha': sha, 'why': 'eval'},
                     plan=op.get('plan'))


def op_restart(w, op):
    w.restart(wipe=bool(op.get('wipe')))


def settle(w, max_jobs=12, green=True):
    """Drive the world to quiescence with faults off: helper CI marks every
    robot tip green, every event is delivered, until nothing changes.
    Returns (job records, quiescent?)."""
    recs = []
    last = None
    for rnd in range(max_jobs):
        if green:
            ci_green_all(w)
        if not w.events:
            cur = w.observable()
            if cur == last:
                return recs, True
            last = cur
            # poke every open user PR once more
            for p in w.pr_table():
                if p['author'] != ROBOT and p['state'] == 'OPEN':
                    w.events.append({'k': 'pr', 'id': p['id'],
                                     'why': 'poke'})
            if not w.events:
                return recs, True
        while w.events and len(recs) < max_jobs * 4:
            ev = w.events.pop(0)
            w.events = [e for e in w.events if not _same_event(e, ev)]
            recs.extend(w.deliver(ev))
        if len(recs) >= max_jobs * 4:
            break
    return recs, False


def op_settle(w, op):
    recs, ok = settle(w, op.get('max', 12), op.get('green', True))
    w.last_settle_ok = ok
    return recs


def op_ff_dst(w, op):
    """Somebody with push rights fast-forwards a destination branch by hand
    to the tip of a PR's source branch (out-of-band merge)."""
    pr = user_pr(w, op.get('p'))
    heads = w.heads()
    if pr is None or pr.src_branch not in heads or \
            pr.dst_branch not in heads:
        return
    if not w.is_ancestor(heads[pr.dst_branch], heads[pr.src_branch]):
        return
    w.ugit('push', '-q', 'origin', '%s:refs/heads/%s' % (
        heads[pr.src_branch], pr.dst_branch), check=False)
    sha = heads[pr.src_branch]
    hist = w.dest_history.setdefault(pr.dst_branch, [])
    if not hist or hist[-1] != sha:
        hist.append(sha)
    w.hand_pushed = getattr(w, 'hand_pushed', set()) | {sha}
    w.events.append({'k': 'pr', 'id': pr.id, 'why': 'dst-ff-by-hand'})


def op_third_party(w, op):
    """A third party acting between jobs (outside any window)."""
    w._third_party(op['action'])


APPLY = {
    'open_pr': op_open_pr, 'commit': op_commit, 'amend': op_amend,
    'rebase': op_rebase, 'merge_dst': op_merge_dst,
    'reset_src': op_reset_src, 'decline': op_decline,
    'delete_src': op_delete_src, 'wcommit': op_wcommit,
    'retitle': op_retitle,
    'delete_w': op_delete_w, 'ff_dst': op_ff_dst,
    'approve': _review('approve'),
    'request_changes': _review('request_changes'),
    'dismiss': _review('dismiss'), 'comment_review': _review(
        'comment_review'),
    'comment': op_comment, 'delete_comment': op_delete_comment,
    'resolve_conflict': op_resolve_conflict,
    'ci': op_ci, 'ci_green_all': op_ci_green_all, 'jira': op_jira,
    'api': op_api, 'tag': op_tag, 'deliver': op_deliver, 'dup': op_dup,
    'drop': op_drop, 'deliver_all': op_deliver_all, 'eval': op_eval,
    'eval_commit': op_eval_commit, 'restart': op_restart,
    'settle': op_settle, 'third_party': op_third_party,
}


# ---------------------------------------------------------------------------
# configuration generator

DEV_POOL = ['4.3', '4', '5.1', '5', '10.0', '10']


def gen_config(rng, profile=None):
    """Draw a world configuration.  `profile` biases a few knobs."""
    profile = profile or {}
    ndev = rng.choice(profile.get('ndev', [1, 2, 2, 3, 3, 3, 4]))
    devs = sorted(rng.sample(DEV_POOL, ndev), key=ver_key)
    stabs = {}
    tags = []
    for d in devs:
        if '.' in d and rng.random() < profile.get('p_stab', 0.3):
            micro = rng.choice([0, 1, 4])
            stabs[d] = '%s.%d' % (d, micro)
            if micro > 0:
                tags.append(['%s%s.%d' % (rng.choice(['', '', 'v']), d,
                                          micro - 1), 'development/' + d])
        elif '.' in d and rng.random() < 0.4:
            micro = rng.choice([0, 2])
            form = rng.choice(['%s.%d', 'v%s.%d', '%s.%d', '%s.%d-rc1'])
            tags.append([form % (d, micro), 'development/' + d])
    hotfixes = []
    if rng.random() < profile.get('p_hotfix', 0.25):
        # a hotfix on a version older than (or equal to) the first dev
        first = devs[0]
        major = int(first.split('.')[0])
        minor = int(first.split('.')[1]) if '.' in first else 0
        if minor > 0:
            hv = '%d.%d.%d' % (major, minor - 1, rng.choice([0, 3]))
        else:
            hv = '%d.%d.%d' % (max(major - 1, 0), 9, rng.choice([0, 3]))
        hotfixes.append(hv)
        form = rng.choice(['%s.0', '%s', '%s.0'])
        tags.append([form % hv, 'hotfix/' + hv])
        if rng.random() < 0.3:
            tags.append(['%s.1' % hv, 'hotfix/' + hv])
    use_queue = rng.random() < profile.get('p_queue', 0.7)
    settings = {
        'required_peer_approvals': 0,
        'required_leader_approvals': 0,
        'need_author_approval': False,
        'always_create_integration_pull_requests':
            rng.random() < profile.get('p_int_prs', 0.6),
        'always_create_integration_branches': True,
    }
    if profile.get('approvals'):
        peers = rng.choice([0, 1, 2])
        settings['required_peer_approvals'] = peers
        settings['required_leader_approvals'] = rng.choice(
            [0, min(1, peers)])
        settings['need_author_approval'] = rng.random() < 0.5
    if rng.random() < profile.get('p_nokey', 0.0):
        settings['build_key'] = ''
    cmd_line = []
    if rng.random() < profile.get('p_no_octopus', 0.25):
        cmd_line.append('no_octopus')
    cfg = {
        'devs': devs, 'stabs': stabs, 'hotfixes': hotfixes, 'tags': tags,
        'use_queue': use_queue,
        'skip_queue': use_queue and rng.random() < profile.get(
            'p_skip_queue', 0.4),
        'settings': settings, 'cmd_line_options': cmd_line,
        'robot_comment_events': rng.random() < 0.5,
    }
    return cfg


def dest_branches(cfg):
    out = []
    for hf in cfg.get('hotfixes', []):
        out.append('hotfix/' + hf)
    for d in sorted(cfg['devs'], key=ver_key):
        if d in cfg.get('stabs', {}):
            out.append('stabilization/' + cfg['stabs'][d])
        out.append('development/' + d)
    return out


LABELS = ['TEST-%d', 'TEST-%d-desc', 'test-%d-lower', 'no-ticket-%d',
          'OTHER-%d-x', '4.3/fix-%d', 'w/5.1/x-%d', 'q/%d', 'a.b-%d',
          'x/y/z-%d', '%d', 'TEST-%d/sub', 'development/%d.0', 'v%d.1.2']


def gen_src_name(rng, n, adversarial=0.3):
    prefix = rng.choice(FEATURE_PREFIXES[:4]) if rng.random() > adversarial \
        else rng.choice(FEATURE_PREFIXES)
    label = 'TEST-%d' % n if rng.random() > adversarial \
        else rng.choice(LABELS) % n
    return '%s/%s' % (prefix, label)


class Gen:
    """Reactive op generator with per-property weights."""

    DEFAULT_WEIGHTS = {
        'open_pr': 6, 'commit': 2, 'amend': 0.5, 'rebase': 0.5,
        'merge_dst': 0.3, 'reset_src': 0.2, 'decline': 0.3,
        'delete_src': 0.1, 'wcommit': 0.3, 'approve': 1,
        'request_changes': 0.2, 'dismiss': 0.1, 'comment_review': 0.1,
        'comment': 1, 'delete_comment': 0.2, 'ci': 6, 'ci_green_all': 2,
        'api': 1, 'tag': 0.1, 'deliver': 8, 'dup': 0.3, 'drop': 0.0,
        'deliver_all': 2, 'restart': 0.2, 'resolve_conflict': 1.5,
        'delete_w': 0.0,
    }

    def __init__(self, rng, cfg, weights=None, **kw):
        self.rng = rng
        self.cfg = cfg
        self.weights = dict(self.DEFAULT_WEIGHTS)
        if weights:
            self.weights.update(weights)
        self.max_prs = kw.get('max_prs', 4)
        self.adversarial = kw.get('adversarial', 0.2)
        self.ci_states = kw.get('ci_states', CI_STATES)
        self.ci_green_bias = kw.get('ci_green_bias', 0.6)
        self.comment_texts = kw.get('comment_texts')
        self.api_jobs = kw.get('api_jobs', ['rebuild_queues', 'delete_queues',
                                            'force_merge', 'eval_pr',
                                            'create_branch',
                                            'delete_branch'])
        self.only_new = kw.get('only_new', False)
        self.nsrc = 0

    def pick_pr(self, w, open_only=True):
        ids = []
        for i, pid in enumerate(w.user_prs):
            pr = w.host_pr(pid)
            if pr is not None and (not open_only or pr.status == 'OPEN'):
                ids.append(i)
        return self.rng.choice(ids) if ids else None

    def next(self, w):
        rng = self.rng
        for _ in range(20):
            names = sorted(self.weights)
            kind = rng.choices(names, [self.weights[n] for n in names])[0]
            op = self.make(kind, w)
            if op is not None:
                if self.only_new and op.get('kind') in ('shared', 'ver'):
                    op['kind'] = 'new'
                op['dt'] = rng.choice([1, 1, 5, 30, 300])
                return op
        return {'op': 'deliver_all', 'dt': 1}

    def make(self, kind, w):
        rng = self.rng
        fn = getattr(self, 'g_' + kind, None)
        if fn:
            return fn(w)
        if kind == 'delete_w':
            p = self.pick_pr(w)
            if p is None:
                return None
            return {'op': kind, 'p': p, 'vi': rng.randrange(4)}
        if kind in ('commit', 'amend', 'rebase', 'merge_dst', 'reset_src',
                    'decline', 'delete_src'):
            p = self.pick_pr(w)
            if p is None:
                return None
            op = {'op': kind, 'p': p}
            if kind == 'commit':
                op['kind'] = rng.choice(['new'] * 6 + ['shared', 'ver'])
            return op
        if kind in ('approve', 'request_changes', 'dismiss',
                    'comment_review'):
            p = self.pick_pr(w)
            if p is None:
                return None
            return {'op': kind, 'p': p,
                    'actor': rng.choice(['alice', 'bob', 'carol', 'dave',
                                         'lead', 'root'])}
        if kind in ('deliver', 'dup', 'drop'):
            if not w.events:
                return None
            return {'op': kind, 'i': rng.randrange(len(w.events))}
        if kind == 'deliver_all':
            return {'op': 'deliver_all'} if w.events else None
        if kind == 'ci_green_all':
            return {'op': 'ci_green_all',
                    'which': rng.choice([['src', 'w', 'q'], ['src', 'w'],
                                         ['q'], ['w']])}
        if kind == 'restart':
            return {'op': 'restart', 'wipe': rng.random() < 0.3}
        return None

    def g_open_pr(self, w):
        rng = self.rng
        nopen = sum(1 for pid in w.user_prs
                    if (w.host_pr(pid) is not None and
                        w.host_pr(pid).status == 'OPEN'))
        if nopen >= self.max_prs or len(w.user_prs) >= self.max_prs + 2:
            return None
        dests = [h for h in w.heads() if h.startswith(DEST_PREFIXES)]
        if not dests:
            return None
        self.nsrc += 1
        return {'op': 'open_pr', 'actor': rng.choice(['alice', 'bob']),
                'src': gen_src_name(rng, self.nsrc, self.adversarial),
                'dst': rng.choice(sorted(dests)),
                'kind': rng.choice(['new'] * 8 + ['shared', 'ver']),
                'from': rng.choice(['tip', 'tip', 'old']),
                'ncommits': rng.choice([1, 1, 2])}

    def g_resolve_conflict(self, w):
        cands = []
        for i, pid in enumerate(w.user_prs):
            pr = w.host_pr(pid)
            if pr is None or pr.status != 'OPEN':
                continue
            for c in reversed(w.comments(pid)):
                if c['by'] == ROBOT:
                    if c['text'].lstrip().startswith('# Conflict'):
                        cands.append(i)
                    break
        if not cands:
            return None
        return {'op': 'resolve_conflict', 'p': self.rng.choice(cands),
                'side': self.rng.choice(['theirs', 'ours'])}

    def g_wcommit(self, w):
        p = self.pick_pr(w)
        if p is None:
            return None
        return {'op': 'wcommit', 'p': p, 'vi': self.rng.randrange(3),
                'kind': self.rng.choice(['plain', 'plain', 'merge']),
                'actor': self.rng.choice([None, 'carol'])}

    def g_comment(self, w):
        rng = self.rng
        p = self.pick_pr(w, open_only=False)
        if p is None:
            return None
        texts = self.comment_texts or [
            '@%s approve' % ROBOT, '@%s bypass_build_status' % ROBOT,
            '@%s bypass_peer_approval bypass_author_approval' % ROBOT,
            '/bypass_leader_approval', '@%s wait' % ROBOT,
            '@%s reset' % ROBOT, '@%s force_reset' % ROBOT,
            '@%s help' % ROBOT, '@%s status' % ROBOT, '/no_octopus',
            '@%s unanimity' % ROBOT, 'looks good to me',
            '@%s create_pull_requests' % ROBOT,
            '@%s after_pull_request=1' % ROBOT, '@%s frobnicate' % ROBOT,
            '@%s build' % ROBOT]
        return {'op': 'comment', 'p': p,
                'actor': rng.choice(['alice', 'bob', 'carol', 'root',
                                     'root', 'lead']),
                'text': rng.choice(texts)}

    def g_delete_comment(self, w):
        p = self.pick_pr(w, open_only=False)
        if p is None:
            return None
        return {'op': 'delete_comment', 'p': p,
                'ci': self.rng.randrange(6)}

    def g_ci(self, w):
        rng = self.rng
        choices = []
        for i, pid in enumerate(w.user_prs):
            pr = w.host_pr(pid)
            if pr is None or pr.status != 'OPEN':
                continue
            choices.append(['src', i])
            for vi in range(len(wbranches_of(w, pr))):
                choices.append(['w', i, vi])
            for vi in range(len(qwbranches_of(w, pr))):
                choices.append(['qw', i, vi])
                choices.append(['qw', i, vi])
        for vi in range(len(qbranches(w))):
            choices.append(['q', vi])
        if w.robot_tips and rng.random() < 0.15:
            choices = [['stale', rng.randrange(8)]]
        if not choices:
            return None
        target = rng.choice(choices)
        state = 'SUCCESSFUL' if rng.random() < self.ci_green_bias \
            else rng.choice(self.ci_states)
        op = {'op': 'ci', 'target': target, 'state': state}
        if rng.random() < 0.05:
            op['key'] = 'other-key'
        return op

    def g_api(self, w):
        rng = self.rng
        job = rng.choice(self.api_jobs)
        op = {'op': 'api', 'job': job}
        if job == 'eval_pr':
            p = self.pick_pr(w, open_only=False)
            if p is None:
                return None
            op['kwargs'] = {'pr_id': w.user_prs[p]}
        elif job == 'create_branch':
            op['kwargs'] = {'branch': self.gen_new_branch(w)}
            r = rng.random()
            if r < 0.2:
                devs = sorted(h for h in w.heads()
                              if h.startswith('development/'))
                if devs:
                    op['json'] = {'branch_from': rng.choice(devs)}
            elif r < 0.35:
                heads = w.heads()
                cands = sorted(heads.values())
                if cands:
                    op['json'] = {'branch_from': rng.choice(cands)}
        elif job == 'delete_branch':
            dests = sorted(h for h in w.heads()
                           if h.startswith(DEST_PREFIXES))
            if not dests:
                return None
            op['kwargs'] = {'branch': rng.choice(dests)}
        return op

    def gen_new_branch(self, w):
        rng = self.rng
        kind = rng.choice(['development', 'development', 'stabilization',
                           'hotfix'])
        major = rng.choice([3, 4, 5, 6, 10, 11])
        minor = rng.choice([0, 1, 2, 3])
        if kind == 'development':
            return 'development/%d.%d' % (major, minor)
        devs = [h[len('development/'):] for h in w.heads()
                if h.startswith('development/') and '.' in h]
        if devs and rng.random() < 0.7:
            base = rng.choice(sorted(devs))
            return '%s/%s.%d' % (kind, base, rng.choice([0, 1, 2, 5]))
        return '%s/%d.%d.%d' % (kind, major, minor, rng.choice([0, 1]))

    def g_tag(self, w):
        rng = self.rng
        dests = sorted(h for h in w.heads() if h.startswith(DEST_PREFIXES))
        if not dests:
            return None
        on = rng.choice(dests)
        ver = on.split('/', 1)[1]
        parts = ver.split('.')
        while len(parts) < 2:
            parts.append(str(rng.choice([0, 1])))
        if len(parts) < 3:
            parts.append(str(rng.choice([0, 1, 2, 3])))
        name = '.'.join(parts[:3])
        if on.startswith('hotfix/'):
            name += '.%d' % rng.choice([0, 1, 2])
        name = rng.choice(['', '', 'v']) + name + rng.choice(
            ['', '', '', '-rc1'])
        return {'op': 'tag', 'name': name, 'on': on}
