"""Developer aid: run one seed of a property in-process and print what
happened.  usage: debug.py <PID> <run-index> [base-seed]"""
import json, os, random, sys, shutil
HERE = os.path.dirname(os.path.abspath(__file__))
sys.path.insert(0, os.path.dirname(HERE))
sys.path.insert(0, os.environ.get('VERIF_REPO', '/repo'))
import warnings; warnings.simplefilter('ignore')
from sim import props, core
from sim.world import World
from sim.core import Violation

def main():
    pid, idx = sys.argv[1], int(sys.argv[2])
    base = int(sys.argv[3]) if len(sys.argv) > 3 else 0
    tap = pid.endswith('tap')
    pid = pid[:-3] if tap else pid
    prop = props.get(pid)
    if tap:
        prop = prop.TAP_CLASS()
        prop.ENGINE = 'tap'
    seed = core.derive_seed(base, pid, prop.ENGINE, idx)
    if os.environ.get('SEED'): seed = int(os.environ['SEED'])
    rng = random.Random(seed)
    cfg = prop.gen_config(rng, 'quick')
    replay = None
    if os.environ.get('REPLAY'):
        replay = json.load(open(os.environ['REPLAY']))
        cfg = replay['config']
    print('CONFIG', json.dumps(cfg))
    scratch = '/dev/shm/berte-debug-%d' % os.getpid()
    w = World(scratch, cfg, prop.LOG_LEVEL); w.setup()
    prop.begin(w, rng)
    n = prop.nops(rng, 'quick')
    try:
        for step in range(n if not replay else len(replay['ops'])):
            op = prop.next_op(w, rng, step, n) if not replay else replay['ops'][step]
            if op is None: break
            print('OP', json.dumps(op))
            recs = prop.apply(w, op) or []
            for r in recs:
                print('   JOB %-40s -> %-22s ncmd=%d mut=%s' % (r['job'][:40], r['status'], r['ncmd'],
                      [(m['kind'], (m.get('cmd') or m.get('call'))[:50], m['ok']) for m in r['mut']]))
                if os.environ.get('SHOWLOG'):
                    for l in r['logs']: print('      LOG', l[:3])
                if r['details']: print('      details:', str(r['details'])[:300])
                prop.check_job(w, r)
            prop.check_op(w, op, recs)
        w.final_sink = []; prop.final(w, rng)
    except Violation as v:
        print('VIOLATION', json.dumps(v.as_dict(), indent=1)[:3000])
    print('REFS', json.dumps(w.refs(), indent=0))
    print('STATS', json.dumps(w.stats))
    shutil.rmtree(scratch, ignore_errors=True)
main()
