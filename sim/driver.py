"""Batch driver shared by every check: seeds -> tasks -> results ->
minimisation -> replay file -> evidence."""
import json
import os
import time

from . import core
from .core import derive_seed, digest


DEFAULT_BUDGET = {'quick': 75, 'thorough': 900}


def _task(prop, pid, seed, tier, idx, **kw):
    t = {'property': pid, 'seed': seed, 'tier': tier, 'mode': 'explore',
         'name': '%s#%d' % (pid, idx), 'hang_s': prop.RUN_TIMEOUT + 60}
    t.update(kw)
    return t


def task_stream(prop, pid, base_seed, tier):
    idx = 0
    while True:
        yield _task(prop, pid, derive_seed(base_seed, pid, prop.ENGINE, idx),
                    tier, idx)
        idx += 1


def replay_task(prop, pid, res_or_file, ops=None, **kw):
    t = {'property': pid, 'seed': res_or_file['seed'], 'tier': 'quick',
         'mode': 'replay', 'config': res_or_file['config'],
         'ops': res_or_file['ops'] if ops is None else ops,
         'name': '%s-replay' % pid, 'hang_s': prop.RUN_TIMEOUT + 60}
    if 'hashseed' in res_or_file and res_or_file['hashseed'] is not None:
        t['hashseed'] = int(res_or_file['hashseed'])
    for k in ('engine_state',):
        if k in res_or_file:
            t[k] = res_or_file[k]
    t.update(kw)
    return t


def _has_key(res, key):
    return any(v['key'] == key for v in res.get('violations') or [])


def minimise(prop, pid, res, key, root, nworkers, budget_runs, wall_s):
    """ddmin over the op list with the complements of one round tested in
    parallel.  Accepts a candidate iff it violates with the same key."""
    t0 = time.time()
    ops = list(res['ops'])
    runs = [0]

    def test_many(cands):
        """-> index of the first candidate that still violates, or None."""
        if not cands:
            return None
        tasks = [replay_task(prop, pid, res, ops=c) for c in cands]
        out = core.run_tasks(tasks, 10 ** 9, nworkers, prop.RUN_TIMEOUT,
                             os.path.join(root, 'min-%d' % runs[0]),
                             stop_on_violation=False, max_tasks=len(tasks))
        runs[0] += len(tasks)
        ok = {}
        for t, r in out:
            ok[json.dumps(t['ops'], sort_keys=True)] = _has_key(r, key)
        for i, c in enumerate(cands):
            if ok.get(json.dumps(c, sort_keys=True)):
                return i
        return None

    n = 2
    while len(ops) >= 2 and runs[0] < budget_runs and \
            time.time() - t0 < wall_s:
        chunk = max(1, len(ops) // n)
        subsets = [ops[i:i + chunk] for i in range(0, len(ops), chunk)]
        comps = [[x for j, s in enumerate(subsets) if j != i for x in s]
                 for i in range(len(subsets))]
        hit = test_many(comps)
        if hit is not None:
            ops = comps[hit]
            n = max(n - 1, 2)
        else:
            if n >= len(ops):
                break
            n = min(len(ops), n * 2)
    # try to simplify the configuration knobs the property declares safe
    return ops, runs[0]


def write_replay(pid, res, ops, key, message, detail=None, suffix=''):
    d = os.path.join(core.VERIF, 'replays')
    if os.path.realpath(core.REPO) != '/repo':
        # runs against a scratch copy (seeded changes) never touch /verif
        d = os.path.join(os.environ.get('VERIF_SCRATCH', '/dev/shm'),
                         'berte-replays')
    os.makedirs(d, exist_ok=True)
    name = '%s-%s%s.json' % (pid, digest([key, res['seed']]), suffix)
    path = os.path.join(d, name)
    core.write_json(path, {
        'property': pid, 'engine': res.get('engine', ''),
        'seed': res['seed'], 'hashseed': res.get('hashseed'),
        'config': res['config'], 'ops': ops,
        'expected_violation': key, 'message': message,
        'detail': detail, 'engine_state': res.get('engine_state'),
    })
    return path


def _aggregate(results):
    agg = {'runs': 0, 'errors': [], 'jobs': 0, 'ops': 0, 'gitcmds': 0,
           'faults': {}, 'probes': {}, 'statuses': {}, 'sim_seconds': 0,
           'states': set(), 'transitions': set(), 'nontrivial_digests': set(),
           'nontrivial_runs': 0, 'violations': [], 'extra': {},
           'samples': [], 'seeds': []}
    for task, res in results:
        if res.get('error'):
            agg['errors'].append((task.get('name'), res['error']))
            continue
        agg['runs'] += res.get('runs', 1)
        agg['seeds'].append(res.get('seed'))
        st = res.get('stats', {})
        agg['jobs'] += st.get('jobs', 0)
        agg['ops'] += st.get('ops', 0)
        agg['gitcmds'] += st.get('gitcmds', 0)
        for k in ('faults', 'probes', 'statuses'):
            for kk, v in (st.get(k) or {}).items():
                agg[k][kk] = agg[k].get(kk, 0) + v
        for kk, v in (res.get('extra') or {}).items():
            if isinstance(v, (int, float)):
                agg['extra'][kk] = agg['extra'].get(kk, 0) + v
            elif isinstance(v, list):
                cur = agg['extra'].setdefault(kk, [])
                for x in v:
                    if x not in cur and len(cur) < 200:
                        cur.append(x)
        agg['sim_seconds'] += res.get('sim_seconds', 0)
        agg['states'].update(res.get('states') or [])
        agg['transitions'].update(res.get('transitions') or [])
        if 'nontrivial_digests' in res:
            agg['nontrivial_digests'].update(res['nontrivial_digests'])
            agg['nontrivial_runs'] += res.get('nontrivial_runs', 0)
        elif res.get('nontrivial'):
            agg['nontrivial_runs'] += 1
            agg['nontrivial_digests'].add(
                digest([res.get('states'), res.get('trace_digest')]))
        for v in res.get('violations') or []:
            agg['violations'].append((task, res, v))
        if res.get('samples'):
            for s in res['samples']:
                if len(agg['samples']) < 3:
                    agg['samples'].append(s)
        elif len(agg['samples']) < 3 and res.get('ops'):
            agg['samples'].append({'seed': res['seed'],
                                   'config': res['config'],
                                   'ops': res['ops'][:40]})
    return agg


def write_evidence(prop, pid, args, agg, wall, nviol, det=None):
    rule = getattr(prop, 'RULE', None) or (
        'one evaluation = one seeded simulated history (config, ops and '
        'faults all drawn from the run seed); non-trivial = the mechanism '
        'of the property fired at least once in the run (see probes); '
        'distinct = different (abstract-state set, per-step trace digest)')
    cov = {
        'evaluations': agg['runs'],
        'distinct_nontrivial': len(agg['nontrivial_digests']),
        'rule': rule,
        'samples': agg['samples'] or [{'note': 'no run completed'}],
        'nontrivial_runs': agg['nontrivial_runs'],
        'jobs': agg['jobs'], 'ops': agg['ops'],
        'git_commands_by_bert_e': agg['gitcmds'],
        'simulated_seconds': agg['sim_seconds'],
        'runs_per_hour': round(agg['runs'] * 3600.0 / max(wall, 1e-6)),
        'faults_fired': agg['faults'],
        'rare_branch_probes': agg['probes'],
        'job_statuses': agg['statuses'],
        'distinct_abstract_states': len(agg['states']),
        'distinct_abstract_transitions': len(agg['transitions']),
        'components_real': getattr(prop, 'REAL', []),
        'components_stubbed': getattr(prop, 'STUBBED', []),
        'seeds': [s for s in agg['seeds'] if s is not None][:50],
        'base_seed': args.seed, 'workers': args.jobs,
        'harness_errors': len(agg['errors']),
        'extra': agg['extra'],
    }
    if det is not None:
        cov['determinism_sample'] = det
    zero = [k for k in getattr(prop, 'EXPECTED_PROBES', [])
            if not agg['probes'].get(k)]
    if zero:
        cov['probes_stuck_at_zero'] = zero
    ev = {
        'property_id': pid, 'tier': args.tier, 'seed': args.seed,
        'level': prop.LEVEL, 'coverage': cov,
        'assumptions': getattr(prop, 'ASSUMPTIONS', []),
        'wall_s': round(wall, 2), 'violations': nviol,
    }
    if not args.no_evidence and os.path.realpath(core.REPO) == '/repo':
        os.makedirs(os.path.join(core.VERIF, 'evidence'), exist_ok=True)
        core.write_json(os.path.join(core.VERIF, 'evidence', pid + '.json'),
                        ev)
    return ev


def run_check(args, root):
    from . import props
    pid = args.what
    prop = props.get(pid)
    t0 = time.time()
    budget = args.budget or getattr(prop, 'BUDGET', DEFAULT_BUDGET)[args.tier]
    known = core.load_known()
    known_keys_seen = {}

    det = None
    if args.tier == 'thorough' and not os.environ.get('VERIF_NO_SELFTEST'):
        b, cnt = selftest_property(prop, pid, args.seed + 7919, 2, args.jobs,
                                   root)
        det = {'seeds': cnt, 'executions_per_seed': 3,
               'result': 'identical' if not b else 'DIVERGED'}
        if b:
            print('HARNESS-ERROR determinism sample of %s diverged' % pid)
            return 2
        t0 = time.time()
    results = []
    stream = task_stream(prop, pid, args.seed, args.tier)
    if hasattr(prop, 'tasks'):
        stream = prop.tasks(args.seed, args.tier)
    grace = getattr(prop, 'GRACE', 30)
    stream = ({**t, 'deadline': t0 + budget + grace} for t in stream)
    # regression: replay the recorded histories of repaired defects first
    import glob
    reg_results = []
    reg = []
    for path in sorted(glob.glob(os.path.join(core.VERIF, 'replays',
                                              pid + '-*.json'))):
        if path.endswith('.orig.json'):
            continue
        try:
            with open(path) as f:
                rep = json.load(f)
        except ValueError:
            continue
        reg.append(replay_task(prop, pid, rep, name='regression:' +
                               os.path.basename(path), replay_path=path))
    if reg:
        reg_results = core.run_tasks(reg, 10 ** 9, args.jobs,
                                     prop.RUN_TIMEOUT,
                                     os.path.join(root, 'reg'),
                                     stop_on_violation=False,
                                     max_tasks=len(reg))
    # run in slices so that an unknown violation stops the batch early
    deadline = t0 + budget
    unknown = []
    nrun = 0
    max_runs = args.max_runs or None
    while True:
        left = deadline - time.time()
        if nrun and left <= 0:
            break
        if max_runs and nrun >= max_runs:
            break
        cap = None if not max_runs else max_runs - nrun
        out = core.run_tasks(
            stream, max(left, 0.01), args.jobs, prop.RUN_TIMEOUT,
            os.path.join(root, 'b%d' % nrun),
            stop_on_violation=not os.environ.get('VERIF_KEEP_GOING'),
            max_tasks=cap)
        nrun += len(out)
        results.extend(out)
        for task, res in out:
            for v in res.get('violations') or []:
                k = core.match_known(v, known)
                if k:
                    known_keys_seen.setdefault(k['key'], (k, v, res))
                else:
                    unknown.append((task, res, v))
        if (unknown and not os.environ.get('VERIF_KEEP_GOING')) or not out:
            break
    agg = _aggregate(results)
    rc = 0
    reg_bad = []
    for task, res in reg_results:
        if res.get('error'):
            agg['errors'].append((task.get('name'), res['error']))
        for v in res.get('violations') or []:
            k = core.match_known(v, known)
            if k:
                known_keys_seen.setdefault(k['key'], (k, v, res))
            else:
                reg_bad.append((task, v))
    agg['extra']['regression_replays'] = len(reg_results)
    if agg['errors']:
        for name, err in agg['errors'][:3]:
            print('HARNESS-ERROR in %s: %s' % (name, err.strip()[-1500:]))
        rc = 2
    for key, (k, v, res) in sorted(known_keys_seen.items()):
        print('KNOWN-FINDING: property=%s %s' % (pid, k.get('what_fails',
                                                            v['message'])))
    nviol = 0
    if reg_bad and rc == 0:
        for task, v in reg_bad:
            nviol += 1
            print('VIOLATION property=%s replay=%s' % (
                pid, task['replay_path']))
            print('  key: %s (a repaired defect is back)' % v['key'])
            print('  %s' % v['message'])
        rc = 1
    if unknown and rc == 0 and os.environ.get('VERIF_KEEP_GOING'):
        keys = {}
        for task, res, v in unknown:
            keys.setdefault(v['key'], []).append((res['seed'], v['message']))
        for k, lst in sorted(keys.items()):
            print('FOUND %3d x %s\n      e.g. seed=%s %s' % (
                len(lst), k, lst[0][0], lst[0][1][:400]))
        rc = 1
        nviol = len(keys)
    elif unknown and rc == 0:
        seen = set()
        for task, res, v in unknown:
            if v['key'] in seen:
                continue
            seen.add(v['key'])
            nviol += 1
            path = report_violation(prop, pid, res, v, root, args)
            print('VIOLATION property=%s replay=%s' % (pid, path))
            print('  key: %s' % v['key'])
            print('  %s' % v['message'])
        rc = 1
    wall = time.time() - t0
    ev = write_evidence(prop, pid, args, agg, wall, nviol, det)
    c = ev['coverage']
    print('%s tier=%s seed=%d runs=%d nontrivial=%d distinct=%d jobs=%d '
          'states=%d faults=%s wall=%.0fs rc=%d' % (
              pid, args.tier, args.seed, c['evaluations'],
              c['nontrivial_runs'], c['distinct_nontrivial'], c['jobs'],
              c['distinct_abstract_states'],
              json.dumps(c['faults_fired'], sort_keys=True), wall, rc))
    if c.get('probes_stuck_at_zero'):
        print('WARNING probes stuck at zero: %s' % c['probes_stuck_at_zero'])
    return rc


def report_violation(prop, pid, res, v, root, args):
    """Minimise, confirm in a fresh process, write the replay file."""
    key = v['key']
    orig = write_replay(pid, res, res['ops'], key, v['message'],
                        v.get('detail'), suffix='.orig')
    ops = res['ops']
    if getattr(prop, 'MINIMISE', True) and len(ops) > 1:
        try:
            ops, nruns = minimise(
                prop, pid, res, key, root, args.jobs,
                getattr(prop, 'MIN_RUNS', 120),
                getattr(prop, 'MIN_WALL', 600))
        except Exception as err:  # minimisation is best effort
            print('  (minimisation failed: %s)' % err)
            ops = res['ops']
    # fresh-process confirmation of the (minimised) file
    conf = core.run_one(replay_task(prop, pid, res, ops=ops),
                        os.path.join(root, 'confirm'), prop.RUN_TIMEOUT)
    if not _has_key(conf, key):
        # fall back to the unminimised list
        conf2 = core.run_one(replay_task(prop, pid, res),
                             os.path.join(root, 'confirm2'),
                             prop.RUN_TIMEOUT)
        if not _has_key(conf2, key):
            raise core.HarnessError(
                'violation %s of seed %s does not reproduce on replay '
                '(nondeterminism in the harness?): %s' % (
                    key, res['seed'], conf2.get('error', '')))
        ops = res['ops']
        conf = conf2
    vv = [x for x in conf['violations'] if x['key'] == key][0]
    path = write_replay(pid, res, ops, key, vv['message'], vv.get('detail'))
    print('  minimised %d -> %d ops; original kept at %s' % (
        len(res['ops']), len(ops), orig))
    return path


def run_replay(args, root):
    from . import props
    pid = args.what
    prop = props.get(pid)
    with open(args.replay) as f:
        rep = json.load(f)
    res = core.run_one(replay_task(prop, pid, rep),
                       os.path.join(root, 'replay'), prop.RUN_TIMEOUT)
    if res.get('error'):
        print('HARNESS-ERROR %s' % res['error'])
        return 2
    if res.get('violations'):
        for v in res['violations']:
            print('VIOLATION property=%s replay=%s' % (pid, args.replay))
            print('  key: %s' % v['key'])
            print('  %s' % v['message'])
            if v['key'] != rep.get('expected_violation'):
                print('  (expected key was %s)' % rep.get(
                    'expected_violation'))
        return 1
    print('%s replay: no violation' % pid)
    return 0


def selftest_property(prop, pid, seed, n, jobs, root):
    """-> (bad count, number of seeds compared)"""
    base = []
    if hasattr(prop, 'tasks'):
        gen = prop.tasks(seed, 'quick')
        for i in range(n):
            base.append(next(gen))
    else:
        for i in range(n):
            base.append(_task(prop, pid, derive_seed(
                seed, pid, prop.ENGINE, i), 'quick', i))
    variants = []
    for t in base:
        for label, hs, in (('a', None), ('b', None), ('h', 12345)):
            tt = dict(t)
            tt['want_trace'] = True
            tt['label'] = label
            if tt.get('batch'):
                tt['batch'] = min(tt['batch'], 150)
            if hs is not None:
                tt['hashseed'] = hs + (t['seed'] % 1000)
            variants.append(tt)
    out1 = core.run_tasks([v for v in variants if v['label'] == 'a'],
                          10 ** 9, 1, prop.RUN_TIMEOUT,
                          os.path.join(root, 'st1-' + pid),
                          stop_on_violation=False, max_tasks=len(base))
    out2 = core.run_tasks([v for v in variants if v['label'] != 'a'],
                          10 ** 9, jobs, prop.RUN_TIMEOUT,
                          os.path.join(root, 'st2-' + pid),
                          stop_on_violation=False, max_tasks=2 * len(base))
    bad = 0
    by_seed = {}
    for t, r in out1 + out2:
        if r.get('error'):
            print('HARNESS-ERROR selftest %s: %s' % (pid, r['error'][-800:]))
            bad += 1
            continue
        by_seed.setdefault(t['seed'], []).append(
            (t['label'], r.get('trace_digest'), r.get('trace'),
             [v['key'] for v in r.get('violations') or []]))
    for s_, lst in sorted(by_seed.items()):
        ds = set(x[1] for x in lst)
        if len(ds) != 1 or len(lst) != 3:
            bad += 1
            print('NONDETERMINISM %s seed=%d: %s' % (
                pid, s_, [(x[0], x[1]) for x in lst]))
            traces = [x[2] for x in lst if x[2]]
            if len(traces) >= 2:
                for i, (a, b) in enumerate(zip(traces[0], traces[1])):
                    if a != b:
                        print('  first divergence at step %d' % i)
                        break
    return bad, len(by_seed)


def run_selftest(args, root):
    """Determinism: every sampled seed is run twice, at two worker counts,
    and once more under a different PYTHONHASHSEED; trace digests must be
    equal.  A divergence is a harness error, never a violation."""
    from . import props
    pids = [p for p in sorted(props.REGISTRY)]
    if os.environ.get('VERIF_SELFTEST_PROPS'):
        pids = os.environ['VERIF_SELFTEST_PROPS'].split(',')
    n = args.n or 6
    bad = 0
    for pid in pids:
        prop = props.get(pid)
        if not getattr(prop, 'SELFTEST', True):
            continue
        b, cnt = selftest_property(prop, pid, args.seed, n, args.jobs, root)
        bad += b
        print('selftest %s: %d seeds x 3 executions (workers 1 and %d, '
              'two hash seeds): %s' % (pid, cnt, args.jobs,
                                       'FAILED' if b else 'identical'))
    return 2 if bad else 0
