"""E5 - cascade, ticket gate and queue selection on an in-memory repository.

Real: BranchCascade (build/add_branch/update_versions/finalize/validate/
get_merge_paths), branch_factory and the branch classes, jira_checks and its
helpers, QueueCollection.  Simulated: the release manager / Jira editors /
CI that create the state these functions read, the order in which git lists
refs, the commit graph (only ancestry matters), API errors.
"""
import logging
import re

from .models import Layout, DEV_RE, STAB_RE, HOTFIX_RE


class Graph:
    """Commit graph: ancestry only."""

    def __init__(self):
        self.parents = {}
        self.n = 0

    def commit(self, *parents):
        self.n += 1
        sha = '%040x' % self.n
        self.parents[sha] = [p for p in parents if p]
        return sha

    def ancestors(self, sha):
        seen = set()
        stack = [sha]
        while stack:
            s = stack.pop()
            if s in seen or s is None:
                continue
            seen.add(s)
            stack.extend(self.parents.get(s, []))
        return seen

    def is_ancestor(self, a, b):
        return a in self.ancestors(b)


class StubRepo:
    """Stands for bert_e.lib.git.Repository: answers the few commands the
    cascade / queue code issues, refs listed in a caller-chosen order."""

    def __init__(self, rng=None, graph=None):
        self.rng = rng
        self.graph = graph
        self.heads = {}      # name -> sha (or None when no graph)
        self.tags = []
        self.log = []

    def _order(self, items):
        items = list(items)
        if self.rng is not None:
            self.rng.shuffle(items)
        return items

    def resolve(self, rev):
        rev = str(rev)
        if rev in self.heads:
            return self.heads[rev]
        if rev.startswith('origin/') and rev[7:] in self.heads:
            return self.heads[rev[7:]]
        return rev

    def cmd(self, command, *args, **kwargs):
        from bert_e.lib.simplecmd import CommandError
        if args:
            command = command % tuple(str(a).strip() for a in args)
        c = command.strip()
        self.log.append(c)
        m = re.match(r'^git branch -a --list \*(\w+)/\*$', c)
        if m:
            names = [h for h in self.heads if h.startswith(m.group(1) + '/')
                     or ('/' + m.group(1) + '/') in h]
            lines = []
            for n in self._order(names):
                lines.append('  remotes/origin/' + n)
                if self.rng is not None and self.rng.random() < 0.3:
                    lines.append('  ' + n)       # a local copy too
            return ''.join(x + '\n' for x in self._order(lines))
        if c == 'git tag':
            return ''.join(t + '\n' for t in self._order(self.tags))
        if c.startswith('git branch -r --list origin/q/'):
            names = [h for h in self.heads if h.startswith('q/')]
            return ''.join('  origin/%s\n' % n for n in self._order(names))
        m = re.match(r'^git merge-base --is-ancestor (\S+) (\S+)$', c)
        if m:
            if self.graph is None:
                return ''
            a, b = self.resolve(m.group(1)), self.resolve(m.group(2))
            if a is None or b is None or not self.graph.is_ancestor(a, b):
                raise CommandError('not an ancestor')
            return ''
        m = re.match(r'^git rev-parse (\S+)$', c)
        if m:
            sha = self.resolve(m.group(1))
            if sha is None:
                raise CommandError('unknown revision')
            return sha + '\n'
        m = re.match(r'^git checkout (\S+)$', c)
        if m:
            name = m.group(1).strip("'")
            if name not in self.heads:
                raise CommandError('pathspec did not match')
            return ''
        raise CommandError('StubRepo: unsupported command %r' % c)

    def checkout(self, name):
        from bert_e.lib.git import CheckoutFailedException
        from bert_e.lib.simplecmd import CommandError
        try:
            self.cmd('git checkout %s', name)
        except CommandError as err:
            raise CheckoutFailedException(name) from err


# ---------------------------------------------------------------------------
# reference: which ill-formed layouts must be rejected (statement of C09)

def must_reject(lay):
    for k, lst in lay.stabs.items():
        if len(lst) > 1:
            return 'two stabilization branches for %d.%d' % k
        if k not in lay.devs:
            return 'stabilization %s without development/%d.%d' % (
                lst[0][1], k[0], k[1])
        micro = lst[0][0]
        if any(t[0] == k[0] and t[1] == k[1] and t[2] >= micro
               for t in lay.tags):
            return 'release tag at or past %s' % lst[0][1]
    return None


def expected_ignored(lay, dst, targets):
    names = list(lay.devs.values())
    for lst in lay.stabs.values():
        names += [n for _, n in lst]
    return sorted(n for n in names if n not in targets)


def run_cascade(repo, dst_name):
    """Real BranchCascade for destination dst_name.
    -> ('ok', dst names, ignored, versions) | ('rejected', exc class)"""
    from bert_e.workflow.gitwaterflow.branches import (BranchCascade,
                                                       branch_factory)
    from bert_e import exceptions as exc
    try:
        dst = branch_factory(repo, dst_name)
        c = BranchCascade()
        c.build(repo, dst)
        c.validate()
    except exc.BertE_Exception as err:
        return ('rejected', type(err).__name__)
    except exc.InternalException as err:
        return ('rejected', type(err).__name__)
    except Exception as err:
        return ('crashed', type(err).__name__)
    return ('ok', [b.name for b in c.dst_branches],
            list(c.ignored_branches), list(c.target_versions), c)
