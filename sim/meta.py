"""Per-property metadata for MANIFEST.json (levels, notes, techniques)."""

E1_NOTE = ('Trusted base: the in-repo mock git host (bert_e/git_host/mock.py) stands for Bitbucket/GitHub; '
           'real git 2.39 on a bare remote in tmpfs; crashes are placed at operation boundaries (before/after each git push and host write), '
           'not inside a git process; seeded sampling of histories, not exhaustive. ')

ENGINES = [
    {'name': 'E1 world', 'path': 'sim/world.py, sim/ops.py',
     'serves_properties': ['C01', 'C02', 'C03', 'C06', 'C08', 'C10', 'C12', 'C15', 'C16', 'C19', 'C20'],
     'kind_free_text': 'real BertE + workflow + jobs + lib/git + mock host + real git binary; simulated users, CI, webhooks, third parties, crashes, partitions, per-ref push rejection, clock'},
    {'name': 'E3 http', 'path': 'sim/props/c14.py',
     'serves_properties': ['C14'],
     'kind_free_text': 'the real Flask app from setup_server() on an inert BertE; request matrix in seeded order over 3 clients with session churn; forms looped back into the app'},
    {'name': 'E4 hostproto', 'path': 'sim/e4_host.py, sim/props/c17.py, sim/props/c16.py',
     'serves_properties': ['C17', 'C16'],
     'kind_free_text': 'real github/bitbucket clients, BertESession, status cache and webhook handlers against a simulated host served through the requests transport-adapter interface; CI re-runs, webhook reordering/duplication/drop, transport faults, cache sizes'},
    {'name': 'E5 gates', 'path': 'sim/e5_reviews.py, sim/e5_cascade.py, sim/props/c04.py c05.py c07.py c09.py c11.py',
     'serves_properties': ['C04', 'C05', 'C07', 'C09', 'C11'],
     'kind_free_text': 'component-level simulation: real gate functions (handle_comments, check_approvals, jira_checks, BranchCascade, QueueCollection) on real job / mock-host objects while simulated parties (reviewers, admins, Jira editors, release managers, CI) build the state they read; git replaced by an in-memory commit graph'},
    {'name': 'E2 threads', 'path': 'sim/e2_threads.py',
     'serves_properties': ['C13'],
     'kind_free_text': 'baton-passing real threads under sys.settrace; seeded pre-emption plans over put_job/process_task/process/Job.__eq__'},
]

META = {
    'C01': {
        'engine': 'E1 world', 'level': 'exploration', 'design_ref': 'DESIGN.md 5 C01',
        'technique': 'deterministic simulation with fault injection: seeded multi-PR histories against real Bert-E and real git, one job in ten with the remote refusing every update of one destination branch, invariant checked after every job',
        'text': 'Seeded search over histories (PRs on any destination, pushes, rebases, CI reports in any order, comments, admin jobs, restarts, duplicate deliveries) on random cascades of 1-4 development branches with stabilization/hotfix/major-only branches, queue / no-queue / skip-queue, octopus / no_octopus; after every single job the inclusion chain is evaluated on the bare remote with git merge-base. Evidence, not proof.',
        'note': E1_NOTE + 'Oracle is the conditional form of the statement (evaluated only if the chain held before the job); ill-formed layouts by C09 rules are excluded for the pairs concerned.'},
    'C02': {
        'engine': 'E1 world', 'level': 'fault_enumeration', 'design_ref': 'DESIGN.md 5 C02',
        'technique': 'deterministic simulation with fault injection: crash/partition at every operation boundary and per-ref push rejection enumerated inside sampled jobs, fork()-snapshot differential recovery',
        'text': 'Inside seeded histories, sampled jobs are re-executed from a fork() snapshot once per fault: kill and partition before/after each remote-mutating operation (git push, host write) and rejection of each single ref of each push (real update hook, transient and for the whole job). After the fault, after every recovery job and at the end: every source commit of every PR is on all of its targets or none, and the C01 chain holds; a fresh instance, re-delivery and the documented queue reset must reach the tree ids of the uninterrupted run. Thorough enumerates the whole fault space of each selected job, quick a seeded subset of 6.',
        'note': E1_NOTE + 'Workload restricted to non-conflicting changes so that merge order cannot change content; create/delete-branch jobs are not fault-probed (C20).'},
    'C08': {
        'engine': 'E1 world', 'level': 'exploration', 'design_ref': 'DESIGN.md 5 C08',
        'technique': 'deterministic simulation with schedule placement: one third-party action placed immediately before each push of a sampled job (fork() snapshots), ref-ownership oracle after every job',
        'text': 'Seeded histories; for sampled jobs a dry run finds the pushes, then one variant per (push index, action) runs with a third party creating a branch / pushing / force-pushing a source branch strictly between clone and that push. Oracle after every job: destinations only fast-forward, foreign refs equal what their owners left, no forced push argv, delete-branch tags before deleting, every historical destination tip stays reachable.',
        'note': E1_NOTE + 'Third-party actions are placed at push boundaries (the windows the statement quantifies over), not inside a running git process.'},
    'C13': {
        'engine': 'E2 threads', 'level': 'exploration', 'design_ref': 'DESIGN.md 5 C13',
        'technique': 'deterministic schedule exploration: real threads stepped one at a time at source-line granularity under a seeded pre-emption plan, history oracle over accept/start marks',
        'text': 'Hundreds of thousands of seeded interleavings of 1-3 request threads (1-2 events each, 1-2 keys) with the worker over the real put_job/process_task/process/Job.__eq__, 0-4 forced pre-emptions per run, every job outcome class incl. exceptions with a failing __str__. Oracle: every accepted request is followed by an evaluation of its key that starts after the request arrived; after every job the worker is alive, the job is recorded done with the exception class as status and the current-job marker is cleared; the queue drains within the step bound.',
        'note': 'Job handlers are stubs (the property is about the dispatcher); queue.Queue is replaced by a same-surface queue whose get() parks with the scheduler; C-level deque/dict operations are atomic under the GIL; bounded pre-emptions (<=4) over source lines of two files.'},
}

META.update({
    'C03': {
        'engine': 'E1 world', 'level': 'exploration', 'design_ref': 'DESIGN.md 5 C03',
        'technique': 'deterministic simulation: seeded queue-mode histories with a CI actor reporting any state on any (also superseded) commit; every destination movement checked against the report history',
        'text': 'Queue-mode histories (with and without skip_queue_when_not_needed, octopus and no_octopus) in which CI reports SUCCESSFUL/FAILED/STOPPED/INPROGRESS/NOTSTARTED on source, w/, q/w/ and q/ tips and on stale commits in any order, admins bypass the build check or force-merge. At every movement of a development/stabilization/hotfix ref the new tip must have been reported SUCCESSFUL on that very sha ("ever", so a later red re-run cannot make the oracle stricter than the statement), unless force-merged, bypassed for a merged PR, or no build key.',
        'note': E1_NOTE + 'The bypass exemption is generous (any admin comment naming bypass_build_status on a PR merged by the job).'},
    'C06': {
        'engine': 'E1 world', 'level': 'exploration', 'design_ref': 'DESIGN.md 5 C06',
        'technique': 'deterministic simulation: seeded histories where integration tips move between CI report and evaluation; gate outcome compared with the host status of the tips as published by the job',
        'text': 'Histories with CI reports in any order/state on source and w/ tips, tips then moving (author pushes, rebases, destination merges, manual commits on w/), stale greens on superseded tips, bypass by admin comment / per-author setting / command line, empty build key. Oracle: a job ending Queued or merged directly implies every integration tip (source tip + each w/ tip as published by that job) is currently SUCCESSFUL under the build key; BuildFailed implies a FAILED/STOPPED answer and a "Build failed" message on the PR; BuildNotStarted/BuildInProgress implies no failed answer and no build comment.',
        'note': E1_NOTE + 'Status answers are those of the mock host (no status cache in E1; the cache is covered by C17).'},
    'C10': {
        'engine': 'E1 world', 'level': 'exploration', 'design_ref': 'DESIGN.md 5 C10',
        'technique': 'deterministic simulation, differential: from fork() snapshots of reachable states each possible evaluation is delivered four times to the long-lived instance and to a fresh one',
        'text': 'Seeded histories with bursts of command comments (help/reset/force_reset/status/build) and silent evaluations; at seeded points every PR event (incl. integration PRs) and commit event on every source/w/q tip is repeated 4x from a snapshot on the long-lived and on a fresh instance: the 4th evaluation must change no ref, PR or comment, both instances must leave identical refs/PRs/comments; after every job no two adjacent comments of a PR are identical robot messages and no command comment is executed twice.',
        'note': E1_NOTE + '"Twice in a row" is read as two adjacent comments of the PR (weakest reading); command executions are attributed through the reference reading of "comments after the robot\'s last message".'},
    'C12': {
        'engine': 'E1 world', 'level': 'exploration', 'design_ref': 'DESIGN.md 5 C12',
        'technique': 'deterministic simulation: seeded histories adding/removing holds at any position; nothing-created oracle after every job, bounded-liveness (drive to quiescence) after the hold is lifted',
        'text': 'Fully approved, green PRs combined with wait / after_pull_request (open, declined, merged, unknown, non-numeric ids, several) comments added and deleted anywhere in the history, closed PRs re-delivered, foreign source/destination names. While a hold is in force no w/ or q/w/ ref of that PR appears, no integration PR is created, it is not merged, and foreign PRs get no comment at all; after every hold is lifted and CI is green the PRs that had no other obstacle must end MERGED within the job cap.',
        'note': E1_NOTE + 'Non-numeric after_pull_request values are treated as unspecified; branch names in the robot namespace (q/..., w/...) are not used as foreign sources.'},
    'C15': {
        'engine': 'E1 world', 'level': 'exploration', 'design_ref': 'DESIGN.md 5 C15',
        'technique': 'deterministic simulation with fault injection: seeded histories of source rewrites and manual commits on integration branches with known provenance, then reset/force_reset, the executing job also re-run with one git command failing at sampled positions',
        'text': 'Histories in which sources are amended, rebased, extended, hard-reset, merged with their destination, and manual commits (plain or hand-made merges, by author or peer) are pushed on w/ branches in any order before reset or force_reset. The simulator knows each commit\'s provenance: if a w/ branch of the PR still holds a manual commit, reset must end LossyResetWarning with no ref changed and nothing declined; either command may delete only that PR\'s w/ branches and decline only its integration PRs; the next gated evaluation must have rebuilt the w/ branches. The job that executes the command is re-run in fork() snapshots with one git sub-process failing (half of the sampled positions inside clone()): whatever it answers then, the manual commit must still be on the remote.',
        'note': E1_NOTE + 'A refusal without manual work is an observation, not a violation.'},
    'C19': {
        'engine': 'E1 world', 'level': 'exploration', 'design_ref': 'DESIGN.md 5 C19',
        'technique': 'deterministic simulation with fault injection: webhook re-entry (child-PR and robot-comment events), duplication and reordering, jobs killed / partitioned / failed by the host at a drawn remote-mutating operation then restarted and re-delivered; structural invariant after every job, differential child/commit/parent event delivery from snapshots, end-of-run clause after a fault-free settle',
        'text': 'Up to 3 PRs on overlapping cascades with integration PRs on/off, every webhook the robot itself provokes put on the simulated network and delivered in seeded order and multiplicity, commit events on source/w/q tips. After every job: w/ branches exist only for targets beyond the first, at most one OPEN robot PR per (w/ branch, target), titled and described after its parent; from snapshots an event on a child PR or on a source/w tip must leave the same state as the parent event; decline cleans exactly the parent\'s branches and PRs, merge removes them. Sampled deliveries (and, in a scripted story, the very job that lands a multi-target PR) die, lose the network or are failed by the host before one of their remote-mutating operations; a fresh instance gets the event again. At the end every event is delivered and every build turned green with faults off: a merged PR must keep no integration branch.',
        'note': E1_NOTE + 'The mock host never closes a PR whose source branch vanished, so "no open robot PR without a live parent" is not asserted after merges.'},
    'C20': {
        'engine': 'E1 world', 'level': 'exploration', 'design_ref': 'DESIGN.md 5 C20',
        'technique': 'deterministic simulation with fault injection: admin jobs (create/delete branch, rebuild/delete/force-merge queues) issued in seeded reachable states with queued PRs, create/delete-branch also under per-ref push rejection and a racing tag push; before/after ref+tag diff against a reference cascade model',
        'text': 'In states reached by seeded histories (queues on/off, hotfix queues, queued PRs) admin jobs are issued with names older/between/newer/existing/archived and branch_from absent/branch/commit. Refusals (JobFailure/NothingToDo/NotMyJob) must leave refs and tags identical; a successful create-branch must leave a well-formed layout (reference model) with the C01 chain, never for an archived version or an older development branch while PRs are queued; delete-branch refuses with queued PRs / live stabilization and leaves the archive tag on the deleted tip; rebuild/delete queues touch only q/*, and rebuild re-submits exactly the queued PRs in entry order (per independent queue). Sampled create/delete-branch jobs are additionally re-run in fork() snapshots with the remote refusing each ref the job publishes and with a third party publishing the archive tag first: a refusing job must leave destination branches (and tags other than the deliberately early archive tag) untouched, a deleted branch must have its archive tag.',
        'note': E1_NOTE + 'A rebuild-queues job that ends in an internal exception while PRs are queued counts as a violation (it re-submits nothing).'},
})

E5_NOTE = ('Component-level simulation (labelled as such): the gate functions are the real ones, called directly on a real job bound to the in-repo mock host; git is a stub / in-memory commit graph; seeded sampling. ')

META.update({
    'C04': {
        'engine': 'E5 gates', 'level': 'exploration', 'design_ref': 'DESIGN.md 5 C04',
        'technique': 'deterministic simulation of the parties that build the review state (reviewers, admins, author, robot, failing host reads); refinement of the real check_approvals against a three-valued reference predicate after every op',
        'text': 'Seeded histories of approvals, change requests, dismissals, comment-reviews and option comments over a 5-user universe under drawn settings (required_peer 0-3, required_leader 0-2 within the settings validation, need_author on/off, leader sets with/without the author, per-author and command-line bypasses). After every op the real handle_comments + check_approvals run on a fresh job; the outcome (pass / ApprovalRequired) must equal the reference predicate written from the statement, three-valued where the statement is silent; a failing host read must never yield pass.',
        'note': E5_NOTE + 'Options are those the real handle_comments produced (C07 checks them); approve/unanimity come from comments only, as in the quantifier; option=value on a boolean option is unspecified.'},
    'C05': {
        'engine': 'E5 gates', 'level': 'exploration', 'design_ref': 'DESIGN.md 5 C05',
        'technique': 'deterministic simulation of queue histories (PRs entering, CI reporting in any order incl. superseded commits, evaluations applied) on an in-memory commit graph; refinement of the real QueueCollection against the longest-green-prefix reference; disagreements re-staged on a real repository through E1',
        'text': 'The statement asks for exhaustive enumeration; this check samples that input space through ~10^5 seeded queue histories per minute: cascades of 1-3 development versions with optional stabilization and hotfix, <= 4 queued PRs on any destination, statuses {SUCCESSFUL, FAILED, INPROGRESS, NOTSTARTED} on any queue commit, q/* refs listed in seeded order, normal and force evaluations applied before more PRs enter. Selected PRs and destination movements of the real class must equal the reference (longest all-green prefix per independent queue).',
        'note': E5_NOTE + 'NOT exhaustive (sampling). add_to_queue is modelled (parents of queue commits), which is why each disagreement is re-staged on a real repository before being classified; one genuine defect is recorded as a known finding.'},
    'C07': {
        'engine': 'E5 gates', 'level': 'exploration', 'design_ref': 'DESIGN.md 5 C07',
        'technique': 'deterministic simulation of commenters (author, admin, admin-who-is-author, others, robot) posting from the option/command grammar of the live registry; refinement of the real handle_comments against an independent parser + entitlement model after every op',
        'text': 'Comment lists built over time from {@robot, @robot:, /} x keyword[=arg] sequences (every registered option and command plus unknown words, separators from " ,.-:;|+", leading/trailing text, glued and odd shapes) by the five kinds of posters, with deletions. After every op the real handle_comments runs on a fresh job: a privileged option may be active only if an admin who is not the author set it (or settings/command line), approve only from the author, an unknown / unauthorised keyword must block with the matching message, unaddressed text must change nothing.',
        'note': E5_NOTE + 'Only the clauses of the statement (all of them "only if"/"blocks") are judged; a valid comment that is nevertheless blocked, or not applied, is counted as an observation. Shapes on which the documentation is silent are classified unspecified and counted.'},
    'C09': {
        'engine': 'E5 gates', 'level': 'exploration', 'design_ref': 'DESIGN.md 5 C09',
        'technique': 'deterministic simulation of a release manager editing branches and tags over time, refs discovered in seeded order and under seed-dependent hash randomisation; refinement of the real BranchCascade against a reference cascade model for every destination after every op',
        'text': 'Histories over majors {4,5,10} x minors {0,1,none}: create development branches, cut/drop stabilizations, tag releases (plain, v-prefixed, suffixed, x.y.z.n), open and tag hotfix branches, archive versions, ill-formed moves and foreign names. After every op, for every destination, targets, ignored branches and fix versions of the real cascade must equal the reference; the three ill-formed layouts of the statement must be rejected.',
        'note': E5_NOTE + 'The order of discovery is the simulated nondeterminism (git listing order and PYTHONHASHSEED); ancestry questions answer yes (inclusion is C01). A hotfix branch with no tag of its version has an unspecified fix version.'},
    'C11': {
        'engine': 'E5 gates', 'level': 'exploration', 'design_ref': 'DESIGN.md 5 C11',
        'technique': 'deterministic simulation of Jira editors and injected Jira API failures (one to four consecutive calls of an evaluation, 401/404/429/5xx); refinement of the real jira_checks against the decision list of the statement after every op',
        'text': 'Histories in which issues are created, deleted, retyped and their fixVersions edited (incl. suffixed and x.y.z.n forms), admins comment bypass_jira_check, the Jira API answers 404 vs 5xx, under drawn settings (jira_keys, prefixes, bypass_prefixes, disable_version_checks, Jira unconfigured, per-author/command-line bypass), source names with/without/lower-case/foreign ticket keys and six cascades. After every op the real jira_checks outcome must be the class the statement prescribes; a failing Jira never yields pass (judged when every Jira call of the evaluation failed; if a retry got a real answer the issue is judged as it is). Whether the bypass is in force is derived from command line / the author\'s own pr_author_options entry (several users listed, in a drawn order) / an admin comment, not taken from the job.',
        'note': E5_NOTE + 'Expected versions are those of the real cascade (C09 checks them separately); the "repository untouched" clause follows from jira_checks running before any integration branch is created (C12/C19 observe refs on real repositories).'},
    'C14': {
        'engine': 'E3 http', 'level': 'exploration', 'design_ref': 'DESIGN.md 5 C14',
        'technique': 'deterministic simulation of HTTP clients and of the OAuth identity provider: the complete request matrix issued in a seeded order interleaved over three clients with session churn (sessions planted, and obtained through the real login route with accepted and refused logins) against the real Flask app; reference ACL checked after every request on status class and exact task-queue growth',
        'text': 'Every registered API endpoint and management form (live registries) x 5 methods x 4 session states x well-/ill-formed parameters (branch names around the grammar, pr ids <= 0, missing/extra JSON, bodies shadowing URL parameters), plus six session states reached through /api/auth (accepted user / admin; refused: admin handle with a foreign or missing e-mail, user with a foreign e-mail, no user name) for every endpoint and form; both webhook routes x 4 credentials x 9 repository identities (match, other owner, other slug, and six shapes of a missing identity) x handled and unhandled event types, on a Bitbucket- and a GitHub-configured instance; every cell executed in every run, in seeded order. A refused cell answers >= 400 and enqueues nothing; an allowed cell enqueues exactly one job of the endpoint class carrying exactly the validated parameters and the session user.',
        'note': 'BertE instance is inert (no git); the OAuth identity provider is a table (the browser redirect flow is not exercised, /api/auth and _handle_authorize are real); the forms outgoing HTTP call is looped back into the same app; endpoints unknown to the reference ACL are held to the weaker rule and reported.'},
    'C16': {
        'engine': 'E1 world + E4 hostproto', 'level': 'fault_enumeration', 'design_ref': 'DESIGN.md 5 C16',
        'technique': 'deterministic simulation with fault injection: every git command index of sampled jobs made to fail / hang while printing the credentialed URL (Popen seam), at DEBUG and INFO; scripted GitHub (password, App/JWT) and Bitbucket sessions with failing responses; every sink searched for the secrets',
        'text': 'Git half: seeded histories on a repository whose clone URL carries the robot password (URL-special, shell-special, non-ASCII, blank-containing passwords); for sampled jobs (PR, commit and admin jobs) each git command index - all of them in thorough, a seeded subset in quick - is replaced by a process that exits non-zero or times out after printing the URL; log records incl. tracebacks, fd-level stdout/stderr, job status/details/as_json, status page, comments and status reports are searched for the password in raw, quote_plus and quote form. API half: GitHub password and App mode (JWT, installation token, TTL roll-over) and Bitbucket basic auth with 401/403/404/422/429/500, malformed bodies, timeouts; Authorization values, JWT and tokens must not reach logs, stdout or exception messages.',
        'note': E1_NOTE + 'The failing process is substituted at the subprocess seam of bert_e.lib.simplecmd, so the masking code runs for real; a timeout costs 50 ms of real time.'},
    'C17': {
        'engine': 'E4 hostproto', 'level': 'exploration', 'design_ref': 'DESIGN.md 5 C17',
        'technique': 'deterministic simulation of the git host and CI: status/check-suite webhooks (delayed, duplicated, dropped, reordered), polls, CI re-runs, cache resizes and transport faults against the real clients and cache; aggregation oracle (one-directional) and a conservative LRU reference for the never-downgrade clause',
        'text': 'Seeded histories over 5 commits x 2 build keys on GitHub- and Bitbucket-configured clients: CI changes statuses and workflow-run lists (<= 4 runs over events x statuses x conclusions x 2 workflows x 2 branches, served in seeded order), webhooks go through the real handlers, polls through get_build_status, caches are resized to 1-3 entries, requests fail (404/429/500/502, timeout, malformed, reset). Every runs document served is re-aggregated with the real class and must not be SUCCESSFUL unless one branch has every considered workflow green; a (commit, key) Bert-E answered or was told SUCCESSFUL must stay SUCCESSFUL while it is certainly still cached; any never-green (commit, key) must be answered with what the host reports now.',
        'note': 'The host is a model served through requests\' adapter interface; the LRU reference is deliberately conservative (entry required only while fewer distinct other commits than the minimum cache size were touched since its last definite touch, continuously since the green was seen).'},
})

NOT_APPLICABLE = [
    {'property_id': 'C18', 'reason': 'pure function of a string (branch-name grammar and name round-trip): no schedule, clock, fault, crash point or second party for a simulator to own - DESIGN.md section 5, C18'},
]
