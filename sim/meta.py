"""Per-property metadata for MANIFEST.json (levels, notes, techniques)."""

E1_NOTE = ('Trusted base: the in-repo mock git host (bert_e/git_host/mock.py) stands for Bitbucket/GitHub; '
           'real git 2.39 on a bare remote in tmpfs; crashes are placed at operation boundaries (before/after each git push and host write), '
           'not inside a git process; seeded sampling of histories, not exhaustive. ')

ENGINES = [
    {'name': 'E1 world', 'path': 'sim/world.py, sim/ops.py',
     'serves_properties': ['C01', 'C02', 'C08'],
     'kind_free_text': 'real BertE + workflow + jobs + lib/git + mock host + real git binary; simulated users, CI, webhooks, third parties, crashes, partitions, per-ref push rejection, clock'},
    {'name': 'E2 threads', 'path': 'sim/e2_threads.py',
     'serves_properties': ['C13'],
     'kind_free_text': 'baton-passing real threads under sys.settrace; seeded pre-emption plans over put_job/process_task/process/Job.__eq__'},
]

META = {
    'C01': {
        'engine': 'E1 world', 'level': 'exploration', 'design_ref': 'DESIGN.md 5 C01',
        'technique': 'deterministic simulation: seeded multi-PR histories against real Bert-E and real git, invariant checked after every job',
        'text': 'Seeded search over histories (PRs on any destination, pushes, rebases, CI reports in any order, comments, admin jobs, restarts, duplicate deliveries) on random cascades of 1-4 development branches with stabilization/hotfix/major-only branches, queue / no-queue / skip-queue, octopus / no_octopus; after every single job the inclusion chain is evaluated on the bare remote with git merge-base. Evidence, not proof.',
        'note': E1_NOTE + 'Oracle is the conditional form of the statement (evaluated only if the chain held before the job); ill-formed layouts by C09 rules are excluded for the pairs concerned.'},
    'C02': {
        'engine': 'E1 world', 'level': 'fault_enumeration', 'design_ref': 'DESIGN.md 5 C02',
        'technique': 'deterministic simulation with fault injection: crash/partition at every operation boundary and per-ref push rejection enumerated inside sampled jobs, fork()-snapshot differential recovery',
        'text': 'Inside seeded histories, sampled jobs are re-executed from a fork() snapshot once per fault: kill and partition before/after each remote-mutating operation (git push, host write) and rejection of each single ref of each push (real update hook, transient and for the whole job). After the fault, after every recovery job and at the end: every source commit of every PR is on all of its targets or none, and the C01 chain holds; a fresh instance, re-delivery and the documented queue reset must reach the tree ids of the uninterrupted run. Thorough enumerates the whole fault space of each selected job, quick a seeded subset of 6.',
        'note': E1_NOTE + 'Workload restricted to non-conflicting changes so that merge order cannot change content; create/delete-branch jobs are not fault-probed (C20).'},
    'C08': {
        'engine': 'E1 world', 'level': 'exploration', 'design_ref': 'DESIGN.md 5 C08',
        'technique': 'deterministic simulation with schedule placement: one third-party action placed immediately before each push of a sampled job (fork() snapshots), ref-ownership oracle after every job',
        'text': 'Seeded histories; for sampled jobs a dry run finds the pushes, then one variant per (push index, action) runs with a third party creating a branch / pushing / force-pushing a source branch strictly between clone and that push. Oracle after every job: destinations only fast-forward, foreign refs equal what their owners left, no forced push argv, delete-branch tags before deleting, every historical destination tip stays reachable.',
        'note': E1_NOTE + 'Third-party actions are placed at push boundaries (the windows the statement quantifies over), not inside a running git process.'},
    'C13': {
        'engine': 'E2 threads', 'level': 'exploration', 'design_ref': 'DESIGN.md 5 C13',
        'technique': 'deterministic schedule exploration: real threads stepped one at a time at source-line granularity under a seeded pre-emption plan, history oracle over accept/start marks',
        'text': 'Hundreds of thousands of seeded interleavings of 1-3 request threads (1-2 events each, 1-2 keys) with the worker over the real put_job/process_task/process/Job.__eq__, 0-4 forced pre-emptions per run, every job outcome class incl. exceptions with a failing __str__. Oracle: every accepted request is followed by an evaluation of its key that starts after the request arrived; after every job the worker is alive, the job is recorded done with the exception class as status and the current-job marker is cleared; the queue drains within the step bound.',
        'note': 'Job handlers are stubs (the property is about the dispatcher); queue.Queue is replaced by a same-surface queue whose get() parks with the scheduler; C-level deque/dict operations are atomic under the GIL; bounded pre-emptions (<=4) over source lines of two files.'},
}

NOT_APPLICABLE = [
    {'property_id': 'C18', 'reason': 'pure function of a string (branch-name grammar and name round-trip): no schedule, clock, fault, crash point or second party for a simulator to own - DESIGN.md section 5, C18'},
]
