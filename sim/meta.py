"""Per-property metadata for MANIFEST.json (levels, notes, techniques)."""

E1_NOTE = ('Trusted base: the in-repo mock git host (bert_e/git_host/mock.py) stands for Bitbucket/GitHub; '
           'real git 2.39 on a bare remote in tmpfs; crashes are placed at operation boundaries (before/after each git push and host write), '
           'not inside a git process; seeded sampling of histories, not exhaustive. ')

ENGINES = [
    {'name': 'E1 world', 'path': 'sim/world.py, sim/ops.py',
     'serves_properties': ['C01', 'C02', 'C03', 'C06', 'C08', 'C10', 'C12', 'C15', 'C19', 'C20'],
     'kind_free_text': 'real BertE + workflow + jobs + lib/git + mock host + real git binary; simulated users, CI, webhooks, third parties, crashes, partitions, per-ref push rejection, clock'},
    {'name': 'E2 threads', 'path': 'sim/e2_threads.py',
     'serves_properties': ['C13'],
     'kind_free_text': 'baton-passing real threads under sys.settrace; seeded pre-emption plans over put_job/process_task/process/Job.__eq__'},
]

META = {
    'C01': {
        'engine': 'E1 world', 'level': 'exploration', 'design_ref': 'DESIGN.md 5 C01',
        'technique': 'deterministic simulation: seeded multi-PR histories against real Bert-E and real git, invariant checked after every job',
        'text': 'Seeded search over histories (PRs on any destination, pushes, rebases, CI reports in any order, comments, admin jobs, restarts, duplicate deliveries) on random cascades of 1-4 development branches with stabilization/hotfix/major-only branches, queue / no-queue / skip-queue, octopus / no_octopus; after every single job the inclusion chain is evaluated on the bare remote with git merge-base. Evidence, not proof.',
        'note': E1_NOTE + 'Oracle is the conditional form of the statement (evaluated only if the chain held before the job); ill-formed layouts by C09 rules are excluded for the pairs concerned.'},
    'C02': {
        'engine': 'E1 world', 'level': 'fault_enumeration', 'design_ref': 'DESIGN.md 5 C02',
        'technique': 'deterministic simulation with fault injection: crash/partition at every operation boundary and per-ref push rejection enumerated inside sampled jobs, fork()-snapshot differential recovery',
        'text': 'Inside seeded histories, sampled jobs are re-executed from a fork() snapshot once per fault: kill and partition before/after each remote-mutating operation (git push, host write) and rejection of each single ref of each push (real update hook, transient and for the whole job). After the fault, after every recovery job and at the end: every source commit of every PR is on all of its targets or none, and the C01 chain holds; a fresh instance, re-delivery and the documented queue reset must reach the tree ids of the uninterrupted run. Thorough enumerates the whole fault space of each selected job, quick a seeded subset of 6.',
        'note': E1_NOTE + 'Workload restricted to non-conflicting changes so that merge order cannot change content; create/delete-branch jobs are not fault-probed (C20).'},
    'C08': {
        'engine': 'E1 world', 'level': 'exploration', 'design_ref': 'DESIGN.md 5 C08',
        'technique': 'deterministic simulation with schedule placement: one third-party action placed immediately before each push of a sampled job (fork() snapshots), ref-ownership oracle after every job',
        'text': 'Seeded histories; for sampled jobs a dry run finds the pushes, then one variant per (push index, action) runs with a third party creating a branch / pushing / force-pushing a source branch strictly between clone and that push. Oracle after every job: destinations only fast-forward, foreign refs equal what their owners left, no forced push argv, delete-branch tags before deleting, every historical destination tip stays reachable.',
        'note': E1_NOTE + 'Third-party actions are placed at push boundaries (the windows the statement quantifies over), not inside a running git process.'},
    'C13': {
        'engine': 'E2 threads', 'level': 'exploration', 'design_ref': 'DESIGN.md 5 C13',
        'technique': 'deterministic schedule exploration: real threads stepped one at a time at source-line granularity under a seeded pre-emption plan, history oracle over accept/start marks',
        'text': 'Hundreds of thousands of seeded interleavings of 1-3 request threads (1-2 events each, 1-2 keys) with the worker over the real put_job/process_task/process/Job.__eq__, 0-4 forced pre-emptions per run, every job outcome class incl. exceptions with a failing __str__. Oracle: every accepted request is followed by an evaluation of its key that starts after the request arrived; after every job the worker is alive, the job is recorded done with the exception class as status and the current-job marker is cleared; the queue drains within the step bound.',
        'note': 'Job handlers are stubs (the property is about the dispatcher); queue.Queue is replaced by a same-surface queue whose get() parks with the scheduler; C-level deque/dict operations are atomic under the GIL; bounded pre-emptions (<=4) over source lines of two files.'},
}

META.update({
    'C03': {
        'engine': 'E1 world', 'level': 'exploration', 'design_ref': 'DESIGN.md 5 C03',
        'technique': 'deterministic simulation: seeded queue-mode histories with a CI actor reporting any state on any (also superseded) commit; every destination movement checked against the report history',
        'text': 'Queue-mode histories (with and without skip_queue_when_not_needed, octopus and no_octopus) in which CI reports SUCCESSFUL/FAILED/STOPPED/INPROGRESS/NOTSTARTED on source, w/, q/w/ and q/ tips and on stale commits in any order, admins bypass the build check or force-merge. At every movement of a development/stabilization/hotfix ref the new tip must have been reported SUCCESSFUL on that very sha ("ever", so a later red re-run cannot make the oracle stricter than the statement), unless force-merged, bypassed for a merged PR, or no build key.',
        'note': E1_NOTE + 'The bypass exemption is generous (any admin comment naming bypass_build_status on a PR merged by the job).'},
    'C06': {
        'engine': 'E1 world', 'level': 'exploration', 'design_ref': 'DESIGN.md 5 C06',
        'technique': 'deterministic simulation: seeded histories where integration tips move between CI report and evaluation; gate outcome compared with the host status of the tips as published by the job',
        'text': 'Histories with CI reports in any order/state on source and w/ tips, tips then moving (author pushes, rebases, destination merges, manual commits on w/), stale greens on superseded tips, bypass by admin comment / per-author setting / command line, empty build key. Oracle: a job ending Queued or merged directly implies every integration tip (source tip + each w/ tip as published by that job) is currently SUCCESSFUL under the build key; BuildFailed implies a FAILED/STOPPED answer and a "Build failed" message on the PR; BuildNotStarted/BuildInProgress implies no failed answer and no build comment.',
        'note': E1_NOTE + 'Status answers are those of the mock host (no status cache in E1; the cache is covered by C17).'},
    'C10': {
        'engine': 'E1 world', 'level': 'exploration', 'design_ref': 'DESIGN.md 5 C10',
        'technique': 'deterministic simulation, differential: from fork() snapshots of reachable states each possible evaluation is delivered four times to the long-lived instance and to a fresh one',
        'text': 'Seeded histories with bursts of command comments (help/reset/force_reset/status/build) and silent evaluations; at seeded points every PR event (incl. integration PRs) and commit event on every source/w/q tip is repeated 4x from a snapshot on the long-lived and on a fresh instance: the 4th evaluation must change no ref, PR or comment, both instances must leave identical refs/PRs/comments; after every job no two adjacent comments of a PR are identical robot messages and no command comment is executed twice.',
        'note': E1_NOTE + '"Twice in a row" is read as two adjacent comments of the PR (weakest reading); command executions are attributed through the reference reading of "comments after the robot\'s last message".'},
    'C12': {
        'engine': 'E1 world', 'level': 'exploration', 'design_ref': 'DESIGN.md 5 C12',
        'technique': 'deterministic simulation: seeded histories adding/removing holds at any position; nothing-created oracle after every job, bounded-liveness (drive to quiescence) after the hold is lifted',
        'text': 'Fully approved, green PRs combined with wait / after_pull_request (open, declined, merged, unknown, non-numeric ids, several) comments added and deleted anywhere in the history, closed PRs re-delivered, foreign source/destination names. While a hold is in force no w/ or q/w/ ref of that PR appears, no integration PR is created, it is not merged, and foreign PRs get no comment at all; after every hold is lifted and CI is green the PRs that had no other obstacle must end MERGED within the job cap.',
        'note': E1_NOTE + 'Non-numeric after_pull_request values are treated as unspecified; branch names in the robot namespace (q/..., w/...) are not used as foreign sources.'},
    'C15': {
        'engine': 'E1 world', 'level': 'exploration', 'design_ref': 'DESIGN.md 5 C15',
        'technique': 'deterministic simulation: seeded histories of source rewrites and manual commits on integration branches with known provenance, then reset/force_reset',
        'text': 'Histories in which sources are amended, rebased, extended, hard-reset, merged with their destination, and manual commits (plain or hand-made merges, by author or peer) are pushed on w/ branches in any order before reset or force_reset. The simulator knows each commit\'s provenance: if a w/ branch of the PR still holds a manual commit, reset must end LossyResetWarning with no ref changed and nothing declined; either command may delete only that PR\'s w/ branches and decline only its integration PRs; the next gated evaluation must have rebuilt the w/ branches.',
        'note': E1_NOTE + 'A refusal without manual work is an observation, not a violation.'},
    'C19': {
        'engine': 'E1 world', 'level': 'exploration', 'design_ref': 'DESIGN.md 5 C19',
        'technique': 'deterministic simulation: webhook re-entry (child-PR and robot-comment events), duplication and reordering; structural invariant after every job plus differential child/commit/parent event delivery from snapshots',
        'text': 'Up to 3 PRs on overlapping cascades with integration PRs on/off, every webhook the robot itself provokes put on the simulated network and delivered in seeded order and multiplicity, commit events on source/w/q tips. After every job: w/ branches exist only for targets beyond the first, at most one OPEN robot PR per (w/ branch, target), titled and described after its parent; from snapshots an event on a child PR or on a source/w tip must leave the same state as the parent event; decline cleans exactly the parent\'s branches and PRs, merge removes them.',
        'note': E1_NOTE + 'The mock host never closes a PR whose source branch vanished, so "no open robot PR without a live parent" is not asserted after merges.'},
    'C20': {
        'engine': 'E1 world', 'level': 'exploration', 'design_ref': 'DESIGN.md 5 C20',
        'technique': 'deterministic simulation: admin jobs (create/delete branch, rebuild/delete/force-merge queues) issued in seeded reachable states with queued PRs; before/after ref+tag diff against a reference cascade model',
        'text': 'In states reached by seeded histories (queues on/off, hotfix queues, queued PRs) admin jobs are issued with names older/between/newer/existing/archived and branch_from absent/branch/commit. Refusals (JobFailure/NothingToDo/NotMyJob) must leave refs and tags identical; a successful create-branch must leave a well-formed layout (reference model) with the C01 chain, never for an archived version or an older development branch while PRs are queued; delete-branch refuses with queued PRs / live stabilization and leaves the archive tag on the deleted tip; rebuild/delete queues touch only q/*, and rebuild re-submits exactly the queued PRs in entry order (per independent queue).',
        'note': E1_NOTE + 'A rebuild-queues job that ends in an internal exception while PRs are queued counts as a violation (it re-submits nothing).'},
})

NOT_APPLICABLE = [
    {'property_id': 'C18', 'reason': 'pure function of a string (branch-name grammar and name round-trip): no schedule, clock, fault, crash point or second party for a simulator to own - DESIGN.md section 5, C18'},
]
