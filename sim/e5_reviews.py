"""E5 - review gate and comment options (component-level simulation).

Real: handle_comments, Reactor, check_approvals, bypass_* helpers, the
option registry, PullRequestJob, settings loading/validation, the in-repo mock
host's PR (participants, approvals, change requests, comments).
Simulated: the people who build that state over time (reviewers, admins,
authors, the robot), host read errors, git (a stub that records that a
command wanted the repository).
"""
import logging
import os
import random
import re
from types import SimpleNamespace

from .core import Violation, HarnessError, digest

ROBOT = 'robot'
# author is alice; 'roo' and 'aro' are fragments of admin logins (root,
# carol) and have no right of their own
USERS = ['alice', 'carol', 'dave', 'lead', 'root', 'roo', 'aro']
SEPS = [' ', ', ', ' - ', '. ', ': ', '; ', ' | ', ' + ', ',', '  ']
PRIVILEGED = ['bypass_author_approval', 'bypass_build_status',
              'bypass_commit_size', 'bypass_incompatible_branch',
              'bypass_jira_check', 'bypass_peer_approval',
              'bypass_leader_approval']
AUTHORED = ['approve']
COMMAND_OUTCOME = {'help': 'HelpMessage', 'status': 'StatusReport',
                   'build': 'CommandNotImplemented',
                   'retry': 'CommandNotImplemented',
                   'clear': 'CommandNotImplemented',
                   'reset': 'GitTouched', 'force_reset': 'GitTouched'}


class GitTouched(Exception):
    """A command handler asked for the git repository."""


class _Env:
    ready = False


def _setup(scratch):
    if _Env.ready:
        return
    os.makedirs(scratch, exist_ok=True)
    os.environ['HOME'] = scratch
    logging.disable(logging.CRITICAL)
    import bert_e.lib.git as bgit
    import bert_e.git_host.mock as mock
    from bert_e.lib.simplecmd import CommandError
    n = [0]

    def fake_mkdtemp(*a, **k):
        n[0] += 1
        d = os.path.join(scratch, 't%d' % n[0])
        os.makedirs(d, exist_ok=True)
        return d
    bgit.mkdtemp = fake_mkdtemp

    def nogit(*a, **k):
        raise CommandError('no git in E5')
    _Env.gitstub = SimpleNamespace(cmd=nogit, tmp_directory=os.path.join(
        scratch, 'norepo'))
    mock.Repository.repos[('o', 's')] = _Env.gitstub
    _Env.mock = mock
    _Env.scratch = scratch
    _Env.ready = True
    # the option registry is completed by the first BertE() of a process
    # (gwf.setup); do it now so that what a generator reads from the live
    # registry does not depend on whether a session was created before
    import bert_e.workflow.gitwaterflow as gwf
    gwf.setup({})


def live_registry():
    from bert_e.reactor import Reactor
    return (sorted(Reactor.get_options()), sorted(Reactor.get_commands()))


def make_berte(cfg):
    """A real BertE on the mock host with the drawn settings."""
    import yaml
    from bert_e.bert_e import BertE
    from bert_e.settings import setup_settings
    path = os.path.join(_Env.scratch, 'settings.yml')
    data = {'repository_owner': 'o', 'repository_slug': 's',
            'repository_host': 'mock', 'robot': ROBOT, 'robot_email': 'r@s',
            'pull_request_base_url': 'https://h/{pr_id}',
            'commit_base_url': 'https://h/{commit_id}'}
    data.update(cfg['settings'])
    with open(path, 'w') as f:
        yaml.safe_dump(data, f, sort_keys=False)
    settings = setup_settings(path)
    settings['robot_password'] = 'pw'
    settings['backtrace'] = True
    settings['quiet'] = True
    settings['cmd_line_options'] = list(cfg.get('cmd_line_options', []))
    b = BertE(settings)

    class Repo:
        def clone(self):
            raise GitTouched()

        def __getattr__(self, name):
            raise GitTouched()
    b.git_repo = Repo()
    return b


# ---------------------------------------------------------------------------
# reference model of the comment grammar (DESIGN.md A.3)

def ref_parse(text, options, commands):
    """-> ('none'|'command'|'options'|'unspecified', items)"""
    raw = text.strip()
    prefix = '@' + ROBOT
    if raw.startswith(prefix):
        rest = raw[len(prefix):]
        if rest and not re.match(r'^[\s:,.\-;|+/]', rest):
            return 'unspecified', []       # keyword glued to the prefix
        body = rest
    elif raw.startswith('/'):
        # the whole comment must be /item[ sep /item]*
        if not re.match(r'^/[\w=]+([\s,.\-:;|+]+/[\w=]+)*\s*$', raw):
            if re.match(r'^/\w', raw):
                # "/command args": documented for commands only
                first = re.match(r'^/([A-Za-z_]+)', raw)
                if first and first.group(1) in commands:
                    return 'command', [(first.group(1), None)]
                return 'unspecified', []
            return 'none', []
        body = raw
    else:
        return 'none', []
    words = [x for x in re.split(r'[\s,.\-/:;|+]+', body) if x]
    if not words:
        return 'none', []
    if not all(re.match(r'^[\w=]+$', x) for x in words):
        return 'unspecified', []
    items = []
    for x in words:
        if '=' in x:
            k, v = x.split('=', 1)
            if v == '' or '=' in v or k == '':
                return 'unspecified', []
            items.append((k, v))
        else:
            items.append((x, None))
    if items[0][0] in commands:
        return 'command', items
    return 'options', items


def ref_options(comments, author, admins, options, commands, registry):
    """Reference semantics of option comments.
    -> (blocked_kind or None, applied dict, unspecified?)"""
    applied = {}
    for (by, text) in comments:
        kind, items = ref_parse(text, options, commands)
        if kind == 'unspecified':
            return None, applied, True
        if kind != 'options':
            continue
        for k, v in items:
            if k not in options:
                # a command name in second position is unknown as an option
                return 'UnknownCommand', applied, False
            # which options are privileged / author-only is part of the
            # reference (documentation), not read from the live registry
            privileged = by in admins and by != author
            if k in PRIVILEGED and not privileged:
                return 'NotEnoughCredentials', applied, False
            if k in AUTHORED and by != author:
                return 'NotAuthor', applied, False
            if k == 'after_pull_request':
                if v is None:
                    return 'IncorrectCommandSyntax', applied, False
                try:
                    int(v)
                    applied.setdefault(k, set()).add(v)
                except ValueError:
                    pass
            else:
                if v is not None:
                    return None, applied, True   # bool option with value
                applied[k] = True
    return None, applied, False


def ref_pending_command(comments, options, commands):
    """The command a new evaluation executes: newest addressed command
    comment after the robot's last message."""
    for (by, text) in reversed(comments):
        if by == ROBOT:
            return None
        kind, items = ref_parse(text, options, commands)
        if kind == 'unspecified':
            return 'unspecified'
        if kind == 'command':
            return items[0][0]
    return None


# ---------------------------------------------------------------------------
# reference review gate (DESIGN.md A.2)

def ref_gate(cfg, opts, author, approvals, participants, changes):
    st = cfg['settings']
    leaders = set(st.get('project_leaders', []))
    need_author = st.get('need_author_approval', True)
    req_peer = st.get('required_peer_approvals', 2)
    req_lead = st.get('required_leader_approvals', 0)
    approvals = set(approvals)
    if opts.get('approve'):
        approvals = approvals | {author}
    by_pass_a = bool(opts.get('bypass_author_approval'))
    by_pass_p = bool(opts.get('bypass_peer_approval'))
    by_pass_l = bool(opts.get('bypass_leader_approval'))
    unanimity = bool(opts.get('unanimity'))
    author_ok = (not need_author) or by_pass_a or author in approvals
    peer_ok = by_pass_p or len(approvals - {author}) >= req_peer
    lead_n = len(approvals & leaders) + (
        1 if (author in leaders and author not in approvals) else 0)
    lead_ok = by_pass_l or lead_n >= req_lead
    unan_ok = (not unanimity) or \
        (set(participants) - {ROBOT}) <= approvals
    waived = ((not need_author) or by_pass_a) and \
        (by_pass_p or req_peer == 0) and \
        (by_pass_l or req_lead == 0) and not unanimity
    base = author_ok and peer_ok and lead_ok and unan_ok
    if base and (not changes or waived):
        return 'pass'
    if base and changes and not waived:
        # the one corner the statement leaves open: the only unwaived
        # requirement is the author's and it is met by an `approve` comment
        only_author = (by_pass_p or req_peer == 0) and \
            (by_pass_l or req_lead == 0) and not unanimity and \
            need_author and not by_pass_a and bool(opts.get('approve'))
        if only_author:
            return 'unspecified'
    return 'stop'


# ---------------------------------------------------------------------------

def gen_author_options(rng, author, keys, others=('bob', 'carol', 'lead',
                                                  'dave')):
    """pr_author_options: the author with a list of its own (maybe empty,
    maybe absent) among other users with other lists, in a drawn order."""
    items = []
    if rng.random() < 0.8:
        items.append((author, rng.sample(keys, rng.choice(
            [0, 1, 1, min(2, len(keys))]))))
    for o in rng.sample(list(others), rng.choice([0, 1, 2])):
        items.append((o, rng.sample(keys, rng.choice(
            [1, min(2, len(keys))]))))
    rng.shuffle(items)
    return dict(items)


def gen_config(rng):
    peers = rng.choice([0, 1, 2, 3])
    leaders_pool = rng.choice([[], ['lead'], ['lead', 'alice'],
                               ['lead', 'carol']])
    req_lead = rng.choice([0, 1, 2])
    req_lead = min(req_lead, peers, len(leaders_pool))
    st = {'required_peer_approvals': peers,
          'required_leader_approvals': req_lead,
          'need_author_approval': rng.random() < 0.6,
          'project_leaders': leaders_pool,
          'admins': rng.choice([['root'], ['root', 'alice'],
                                ['root', 'carol']])}
    if rng.random() < 0.3:
        st['pr_author_options'] = gen_author_options(
            rng, 'alice', ['bypass_author_approval', 'bypass_peer_approval',
                           'bypass_leader_approval', 'bypass_build_status'])
    cmd = []
    if rng.random() < 0.2:
        # command line: bypasses only (approve / unanimity come from
        # comments, as in the property's quantifier)
        cmd = rng.sample(['bypass_peer_approval', 'bypass_author_approval',
                          'bypass_leader_approval'], rng.choice([1, 2]))
    return {'settings': st, 'cmd_line_options': cmd}


def gen_comment(rng, options, commands):
    r = rng.random()
    review_kw = ['approve', 'unanimity', 'bypass_author_approval',
                 'bypass_peer_approval', 'bypass_leader_approval']
    pool = review_kw * 3 + list(options) + ['frobnicate', 'bypas_all',
                                            'Approve']
    if r < 0.12:
        return rng.choice(['looks good', 'approve', 'please @robot approve',
                           'see /approve', 'bypass_peer_approval',
                           ' ', 'wait', 'LGTM @robot'])
    if r < 0.2:
        cmd = rng.choice(list(commands))
        if rng.random() < 0.7:
            return '@%s %s' % (ROBOT, cmd)
        return '/%s' % cmd
    n = rng.choice([1, 1, 1, 2, 2, 3])
    kws = []
    for i in range(n):
        k = rng.choice(pool)
        if rng.random() < 0.03:
            # odd shapes: a value that itself looks like keyword=...
            k = '%s=%s=%s' % (k, rng.choice(['1', 'true', '']),
                              rng.choice(pool))
        elif k == 'after_pull_request' or rng.random() < 0.04:
            k = '%s=%s' % (k, rng.choice(['1', '7', 'abc', '', '12', '21',
                                          '110', '007']))
        kws.append(k)
    style = rng.random()
    if style < 0.55:
        text = '@%s%s%s' % (ROBOT, rng.choice([' ', ': ', ':', '  ', ' - ']),
                            rng.choice(SEPS).join(kws))
    elif style < 0.9:
        text = rng.choice(SEPS).join('/' + k for k in kws)
    elif style < 0.95:
        text = '@%s%s' % (ROBOT, kws[0])        # glued
    else:
        text = 'hey @%s %s' % (ROBOT, ' '.join(kws))   # not at the start
    if rng.random() < 0.2:
        text = rng.choice(['  ', '\n', '\t']) + text + rng.choice(
            ['  ', '\n', ''])
    if rng.random() < 0.06:
        text = text + rng.choice([' please', ' !', ' (thanks)'])
    return text


def gen_history(rng, options, commands):
    ops = []
    for i in range(rng.randint(1, 8)):
        r = rng.random()
        who = rng.choice(USERS)
        if r < 0.3:
            ops.append({'op': rng.choice(['approve', 'approve', 'approve',
                                          'request_changes', 'dismiss',
                                          'comment_review']), 'by': who})
        elif r < 0.85:
            ops.append({'op': 'comment', 'by': rng.choice(
                USERS + ['alice', 'root', 'root', ROBOT] if
                rng.random() < 0.9 else [ROBOT]),
                'text': gen_comment(rng, options, commands)})
        elif r < 0.92:
            ops.append({'op': 'delete_comment', 'i': rng.randrange(6)})
        else:
            ops.append({'op': 'hosterr', 'call': rng.choice(
                ['get_approvals', 'get_participants',
                 'get_change_requests'])})
    return ops


class Session:
    """One PR on the mock host, one BertE, a history of ops."""

    def __init__(self, cfg, scratch):
        _setup(scratch)
        mock = _Env.mock
        mock.PullRequest.items = []
        mock.Comment.items = []
        self.cfg = cfg
        self.berte = make_berte(cfg)
        from bert_e.reactor import Reactor
        self.registry = dict(Reactor.get_options())
        self.options = sorted(Reactor.get_options())
        self.commands = sorted(Reactor.get_commands())
        self.clients = {u: mock.Client(u, 'pw', u + '@s')
                        for u in USERS + [ROBOT]}
        repo = self.clients['alice'].get_repository('s', owner='o')
        repo.gitrepo = _Env.gitstub
        self.pr_id = repo.create_pull_request(
            title='t', src_branch='bugfix/TEST-1',
            dst_branch='development/4.3', description='').id
        self.host_fail = None
        self.probes = {}
        self.trace = []

    def probe(self, n):
        self.probes[n] = self.probes.get(n, 0) + 1

    def pr(self, user):
        repo = self.clients[user].get_repository('s', owner='o')
        repo.gitrepo = _Env.gitstub
        return repo.get_pull_request(self.pr_id)

    def apply(self, op):
        mock = _Env.mock
        k = op['op']
        if k in ('approve', 'request_changes', 'comment_review'):
            getattr(self.pr(op['by']), k)()
        elif k == 'dismiss':
            self.pr(op['by']).dismiss(None)
        elif k == 'comment':
            self.pr(op['by']).add_comment(op['text'])
        elif k == 'delete_comment':
            cs = [c for c in mock.Comment.items]
            if cs:
                mock.Comment.items.remove(cs[op['i'] % len(cs)])
        elif k == 'hosterr':
            self.host_fail = op['call']

    def state(self):
        pr = self.pr(ROBOT)
        comments = [(c.author, c.text) for c in pr.comments]
        return {'comments': comments,
                'approvals': sorted(pr.get_approvals()),
                'participants': sorted(pr.get_participants()),
                'changes': sorted(pr.get_change_requests())}

    def evaluate(self):
        """Run the real handle_comments + check_approvals on a fresh job.
        -> dict(outcome=..., settings=..., gate=...)"""
        import requests
        from bert_e.job import PullRequestJob
        from bert_e.workflow.gitwaterflow import (handle_comments,
                                                  check_approvals)
        from bert_e import exceptions as exc
        mock = _Env.mock
        pr = self.berte.project_repo.get_pull_request(self.pr_id)
        job = PullRequestJob(bert_e=self.berte, pull_request=pr)
        out = {'outcome': 'ok', 'settings': None, 'gate': None}
        try:
            handle_comments(job)
        except exc.SilentException as err:
            out['outcome'] = type(err).__name__
            return out
        except GitTouched:
            out['outcome'] = 'GitTouched'
            return out
        except exc.TemplateException as err:
            out['outcome'] = type(err).__name__
            return out
        except Exception as err:
            # the evaluation crashed inside handle_comments (e.g. the
            # IncorrectCommandSyntax message of a keyword with too many
            # values cannot be rendered): the PR goes no further
            out['outcome'] = 'crash:' + type(err).__name__
            self.probe('handle_comments-crashed:' + type(err).__name__)
            return out
        # (a set-valued option is listed in sorted order: its str() would
        # follow the interpreter's hash seed)
        out['settings'] = {
            k: (sorted(job.settings[k], key=str)
                if isinstance(job.settings[k], (set, frozenset))
                else job.settings[k]) for k in self.options}
        out['author_bypass'] = dict(job.author_bypass)
        fail = self.host_fail
        self.host_fail = None
        orig = None
        if fail:
            orig = getattr(mock.PullRequestController, fail)

            def boom(*a, **k):
                out['host_failed'] = fail
                raise requests.exceptions.HTTPError('500 simulated')
            setattr(mock.PullRequestController, fail, boom)
        try:
            check_approvals(job)
            out['gate'] = 'pass'
        except exc.ApprovalRequired:
            out['gate'] = 'stop'
        except requests.exceptions.HTTPError:
            out['gate'] = 'error'
        except Exception as err:
            out['gate'] = 'crash:' + type(err).__name__
        finally:
            if orig:
                setattr(mock.PullRequestController, fail, orig)
        return out
