"""E4 - the git host's HTTP side as a requests transport adapter.

Real: bert_e.git_host.github / bitbucket clients, BertESession (retry
loop), BUILD_STATUS_CACHE + LRUCache, the webhook handlers of
bert_e.server.webhook.  Simulated: the host (a small state machine served
through `requests`' adapter interface), CI re-runs, webhook delivery order,
transport faults, clock.
"""
import io
import json
import hashlib

import requests
from requests.adapters import BaseAdapter
from urllib.parse import urlparse, parse_qs

GH_TRANS = {'INPROGRESS': 'pending', 'SUCCESSFUL': 'success',
            'FAILED': 'failure', 'STOPPED': 'error'}
GH_BACK = {'pending': 'INPROGRESS', 'success': 'SUCCESSFUL',
           'error': 'FAILED', 'failure': 'FAILED'}


class SimHost(BaseAdapter):
    """One simulated host serving the GitHub and Bitbucket endpoints the
    status code paths use."""

    def __init__(self, owner='o', slug='s'):
        super().__init__()
        self.owner, self.slug = owner, slug
        self.gh_status = {}    # commit -> {context: github state}
        self.gh_runs = {}      # commit -> [run dicts] (served in this order)
        self.bb_status = {}    # (commit, key) -> state
        self.fault = None      # None | ('code', n) | ('timeout',) | ...
        self.requests = []     # (method, path, status)
        self.auth_headers = []  # Authorization values seen
        self.token_requests = 0
        self.faults_fired = {}
        self.fired_log = []
        self.use_etag = True
        self.token = 'ghs_simulatedinstallationtoken'
        self.token_fail = None

    # -- requests adapter interface
    def send(self, request, stream=False, timeout=None, verify=True,
             cert=None, proxies=None):
        url = urlparse(request.url)
        path = url.path
        auth = request.headers.get('Authorization')
        if auth:
            self.auth_headers.append(auth)
        fault = self.fault
        self.fault = None
        if fault:
            kind = fault[0]
            self.faults_fired[kind] = self.faults_fired.get(kind, 0) + 1
            self.fired_log.append(fault)
            if kind == 'timeout':
                self.requests.append((request.method, path, 'timeout'))
                raise requests.exceptions.ReadTimeout(
                    'simulated timeout', request=request)
            if kind == 'connreset':
                self.requests.append((request.method, path, 'reset'))
                raise requests.exceptions.ConnectionError(
                    'simulated connection reset', request=request)
            if kind == 'malformed':
                return self._resp(request, 200, '{"truncated": ')
            if kind == 'code':
                return self._resp(request, fault[1],
                                  json.dumps({'message': 'simulated'}))
        status, body, headers = self.route(request, url, path)
        if self.use_etag and status == 200 and request.method == 'GET':
            etag = '"%s"' % hashlib.md5(body.encode()).hexdigest()
            if request.headers.get('If-None-Match') == etag:
                return self._resp(request, 304, '', {'ETag': etag})
            headers = dict(headers or {})
            headers['ETag'] = etag
        return self._resp(request, status, body, headers)

    def close(self):
        pass

    def _resp(self, request, status, body, headers=None):
        r = requests.Response()
        r.status_code = status
        r._content = body.encode() if isinstance(body, str) else body
        r.headers = requests.structures.CaseInsensitiveDict(headers or {})
        r.headers.setdefault('Content-Type', 'application/json')
        r.url = request.url
        r.request = request
        r.encoding = 'utf-8'
        r.reason = 'SIM'
        import datetime
        r.elapsed = datetime.timedelta(microseconds=1)
        r.raw = io.BytesIO(r._content)
        self.requests.append((request.method, urlparse(request.url).path,
                              status))
        return r

    # -- routing
    def route(self, request, url, path):
        o, s = self.owner, self.slug
        q = parse_qs(url.query)
        pre = '/repos/%s/%s' % (o, s)
        if path.startswith(pre + '/commits/') and path.endswith('/status'):
            ref = path[len(pre + '/commits/'):-len('/status')]
            return 200, json.dumps(self.gh_combined(ref)), {}
        if path == pre + '/actions/runs':
            sha = (q.get('head_sha') or [''])[0]
            runs = [dict(r) for r in self.gh_runs.get(sha, [])]
            return 200, json.dumps({'total_count': len(runs),
                                    'workflow_runs': runs}), {}
        if path.startswith('/app/installations/') and \
                path.endswith('/access_tokens'):
            self.token_requests += 1
            if self.token_fail:
                return self.token_fail, json.dumps(
                    {'message': 'Bad credentials'}), {}
            return 201, json.dumps({'token': self.token,
                                    'expires_at': '2099-01-01T00:00:00Z'}), {}
        if path.startswith(pre + '/statuses/'):
            sha = path[len(pre + '/statuses/'):]
            data = json.loads(request.body or '{}')
            self.gh_status.setdefault(sha, {})[data['context']] = \
                data['state']
            return 201, json.dumps({
                'state': data['state'], 'context': data['context'],
                'target_url': data.get('target_url'),
                'description': data.get('description')}), {}
        if path in getattr(self, 'extra_routes', {}):
            return 200, json.dumps(self.extra_routes[path]), {}
        if path == pre:
            return 200, json.dumps(self.gh_repo()), {}
        if path == '/user':
            return 200, json.dumps({'id': 1, 'login': 'robot',
                                    'account_id': 'acc-1'}), {}
        bb = '/2.0/repositories/%s/%s' % (o, s)
        if path.startswith(bb + '/commit/') and '/statuses/build/' in path:
            rest = path[len(bb + '/commit/'):]
            rev, key = rest.split('/statuses/build/')
            st = self.bb_status.get((rev, key))
            if st is None:
                return 404, json.dumps({'type': 'error'}), {}
            return 200, json.dumps({'state': st, 'key': key,
                                    'url': 'https://ci.sim/%s' % rev,
                                    'description': 'sim'}), {}
        if path == bb:
            return 200, json.dumps({'owner': {'username': o}, 'slug': s,
                                    'name': s, 'full_name': '%s/%s' % (o, s),
                                    'scm': 'git', 'is_private': True}), {}
        if path == '/2.0/user':
            return 200, json.dumps({'account_id': 'acc-1',
                                    'username': 'robot'}), {}
        return 404, json.dumps({'message': 'Not Found (sim): ' + path}), {}

    def gh_repo(self):
        return {'name': self.slug, 'full_name': '%s/%s' % (self.owner,
                                                          self.slug),
                'owner': {'login': self.owner, 'id': 1}}

    def gh_combined(self, ref):
        sts = self.gh_status.get(ref, {})
        return {'state': 'pending', 'sha': ref,
                'statuses': [{'state': st, 'context': ctx,
                              'target_url': 'https://ci.sim/%s/%s' % (ref,
                                                                      ctx),
                              'description': 'sim'}
                             for ctx, st in sts.items()]}

    def make_run(self, n, sha, branch, workflow, event, status, conclusion):
        return {'id': n, 'head_sha': sha, 'head_branch': branch,
                'status': status, 'event': event, 'workflow_id': workflow,
                'check_suite_id': n, 'conclusion': conclusion,
                'html_url': 'https://ci.sim/runs/%d' % n,
                'repository': self.gh_repo()}


def reference_green(runs):
    """C17, oracle A: may the state derived from `runs` be SUCCESSFUL?
    True iff on at least one head branch with a considered run (event !=
    workflow_dispatch), every workflow that has a considered run on that
    branch has a run on that branch concluded 'success' (best run kept)."""
    considered = [r for r in runs if r['event'] != 'workflow_dispatch']
    by_branch = {}
    for r in considered:
        by_branch.setdefault(r['head_branch'], []).append(r)
    for b, rs in by_branch.items():
        wfs = {}
        for r in rs:
            wfs.setdefault(r['workflow_id'], []).append(r)
        if all(any(r['conclusion'] == 'success' for r in lst)
               for lst in wfs.values()):
            return True
    return False
