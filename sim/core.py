"""Shared simulator core: seeds, violations, ddmin, batch runner, evidence.

Nothing in here draws from a PRNG or reads a real clock except the batch
runner's wall-clock budget, which only decides *how many* seeds are run,
never what a seed does.
"""
import hashlib
import json
import os
import random
import shutil
import subprocess
import sys
import time
import traceback

VERIF = os.path.dirname(os.path.dirname(os.path.abspath(__file__)))
REPO = os.environ.get('VERIF_REPO', '/repo')
PY = '/venv/bin/python'
KNOWN = os.path.join(VERIF, 'known_findings.jsonl')


def derive_seed(*parts):
    h = hashlib.sha256('/'.join(str(p) for p in parts).encode()).digest()
    return int.from_bytes(h[:6], 'big')


def digest(obj):
    return hashlib.sha256(
        json.dumps(obj, sort_keys=True, default=str).encode()).hexdigest()[:16]


class Violation(Exception):
    """A property violation observed by an oracle."""

    def __init__(self, prop, key, message, detail=None):
        super().__init__('%s %s: %s' % (prop, key, message))
        self.prop = prop
        self.key = key
        self.message = message
        self.detail = detail or {}

    def as_dict(self):
        return {'property': self.prop, 'key': self.key,
                'message': self.message, 'detail': self.detail}


class HarnessError(Exception):
    pass


def ddmin(items, test, budget):
    """Classic ddmin.  `test(sub)` -> True iff the violation persists.
    `budget` is a mutable [n] of remaining test executions."""
    n = 2
    items = list(items)
    while len(items) >= 1 and budget[0] > 0:
        if len(items) == 1:
            budget[0] -= 1
            if test([]):
                return []
            return items
        chunk = max(1, len(items) // n)
        subsets = [items[i:i + chunk] for i in range(0, len(items), chunk)]
        reduced = False
        # try complements (removing one chunk)
        for i in range(len(subsets)):
            if budget[0] <= 0:
                return items
            comp = [x for j, s in enumerate(subsets) if j != i for x in s]
            budget[0] -= 1
            if test(comp):
                items = comp
                n = max(n - 1, 2)
                reduced = True
                break
        if not reduced:
            if n >= len(items):
                break
            n = min(len(items), n * 2)
    return items


# --------------------------------------------------------------------------
# known findings

def load_known():
    out = []
    if os.path.exists(KNOWN):
        for line in open(KNOWN):
            line = line.strip()
            if not line or line.startswith('#') or line.startswith('fixed:'):
                continue
            try:
                out.append(json.loads(line))
            except ValueError:
                pass
    return out


def match_known(viol, known):
    """A violation is known iff a finding of the same property lists a key
    that equals the violation key (exact) or, when the finding's key ends
    with '*', is a prefix of it."""
    for k in known:
        if k.get('property') != viol['property']:
            continue
        key = k.get('key', '')
        if key.endswith('*'):
            if viol['key'].startswith(key[:-1]):
                return k
        elif viol['key'] == key:
            return k
    return None


# --------------------------------------------------------------------------
# batch execution: one sub-process per task, N at a time

def scratch_root():
    base = os.environ.get('VERIF_SCRATCH', '/dev/shm')
    if not os.path.isdir(base) or not os.access(base, os.W_OK):
        base = os.environ.get('TMPDIR', '/var/tmp')
    root = os.path.join(base, 'berte-verif-%d' % os.getpid())
    os.makedirs(root, exist_ok=True)
    return root


def run_tasks(task_iter, budget_s, nworkers, per_task_timeout, root,
              stop_on_violation=True, max_tasks=None, min_tasks=1):
    """Run tasks (dicts) in sub-processes until the budget is used.

    Each task runs `sim/runner.py <task.json>` in a fresh interpreter whose
    PYTHONHASHSEED is derived from the task seed, and writes <task>.out.json.
    Returns the list of (task, result) pairs; a result with 'error' set is a
    harness error.
    """
    t0 = time.time()
    running = []   # (proc, task, paths, started)
    results = []
    n_started = 0
    exhausted = False
    saw_violation = False
    it = iter(task_iter)
    while True:
        # reap
        still = []
        for proc, task, paths, started in running:
            rc = proc.poll()
            if rc is None:
                if time.time() - started > per_task_timeout:
                    proc.kill()
                    proc.wait()
                    results.append((task, {
                        'error': 'wall-clock timeout after %ds (task %s)' % (
                            per_task_timeout, task.get('name'))}))
                    shutil.rmtree(paths['dir'], ignore_errors=True)
                else:
                    still.append((proc, task, paths, started))
                continue
            res = None
            try:
                with open(paths['out']) as f:
                    res = json.load(f)
            except Exception:
                err = ''
                try:
                    err = open(paths['err']).read()[-4000:]
                except Exception:
                    pass
                res = {'error': 'runner exit %s without result: %s' % (rc, err)}
            results.append((task, res))
            if res.get('violations'):
                saw_violation = True
            shutil.rmtree(paths['dir'], ignore_errors=True)
        running = still
        # launch
        elapsed = time.time() - t0
        can_start = (not exhausted and
                     (elapsed < budget_s or n_started < min_tasks) and
                     not (stop_on_violation and saw_violation) and
                     (max_tasks is None or n_started < max_tasks))
        while can_start and len(running) < nworkers:
            try:
                task = next(it)
            except StopIteration:
                exhausted = True
                break
            d = os.path.join(root, 'task-%d' % n_started)
            os.makedirs(d, exist_ok=True)
            paths = {'dir': d, 'in': os.path.join(d, 'task.json'),
                     'out': os.path.join(d, 'out.json'),
                     'err': os.path.join(d, 'stderr.txt')}
            task = dict(task)
            task['run_timeout'] = per_task_timeout
            task['scratch'] = os.path.join(d, 's')
            task['out'] = paths['out']
            with open(paths['in'], 'w') as f:
                json.dump(task, f)
            env = dict(os.environ)
            env['PYTHONHASHSEED'] = str(
                task.get('hashseed', task.get('seed', 0)) % (2 ** 32))
            env['VERIF_REPO'] = REPO
            env.pop('PYTHONPATH', None)
            with open(paths['err'], 'w') as errf:
                proc = subprocess.Popen(
                    [PY, os.path.join(VERIF, 'sim', 'runner.py'), paths['in']],
                    stdout=errf, stderr=errf, env=env, cwd=d,
                    start_new_session=True)
            running.append((proc, task, paths, time.time()))
            n_started += 1
            if max_tasks is not None and n_started >= max_tasks:
                break
        if not running:
            elapsed = time.time() - t0
            if exhausted or (elapsed >= budget_s and n_started >= min_tasks) \
                    or (stop_on_violation and saw_violation) or \
                    (max_tasks is not None and n_started >= max_tasks):
                break
        time.sleep(0.02)
    return results


def run_one(task, root, timeout):
    res = run_tasks([task], 0, 1, timeout, root, max_tasks=1)
    return res[0][1]


def write_json(path, obj):
    tmp = path + '.tmp'
    with open(tmp, 'w') as f:
        json.dump(obj, f, indent=1, sort_keys=True, default=str)
    os.replace(tmp, path)


def fmt_exc():
    return traceback.format_exc()
