"""E2 - deterministic thread scheduler for the job dispatcher.

Real threads run the real BertE.put_job / process_task / process and the
real Job.__eq__, but only the thread holding the baton runs; every source
line of bert_e/bert_e.py and bert_e/job.py is a pre-emption point
(sys.settrace).  Who runs next is decided by the schedule, never by the OS.
"""
import collections
import os
import sys
import threading

from .core import HarnessError

TRACED_SUFFIXES = (os.path.join('bert_e', 'bert_e.py'),
                   os.path.join('bert_e', 'job.py'))


class WorkerStop(BaseException):
    pass


class T:
    def __init__(self, name, prio):
        self.name = name
        self.prio = prio
        self.go = threading.Event()
        self.done = False
        self.blocked_on = None    # predicate or None
        self.thread = None
        self.error = None


class Sched:
    """Cooperative baton scheduler.  `plan` maps step -> target index: at
    that step the running thread is pre-empted in favour of the
    (index mod n)-th other runnable thread.  When the running thread blocks
    or ends, the runnable thread with the smallest priority runs."""

    def __init__(self, plan, max_steps=20000, traced=None):
        self.plan = dict(plan)
        self.traced = tuple(traced) if traced else TRACED_SUFFIXES
        self.threads = []
        self.cur = None
        self.step = 0
        self.max_steps = max_steps
        self.log = []             # (thread, file-tag, line)
        self.main_go = threading.Event()
        self.stopping = False
        self.fired = []
        self.overrun = False

    def add(self, name, prio, fn):
        t = T(name, prio)

        def body():
            t.go.wait()
            t.go.clear()
            sys.settrace(self._tracer)
            try:
                fn()
            except WorkerStop:
                pass
            except BaseException as err:
                t.error = err
            finally:
                sys.settrace(None)
                t.done = True
                self._pass_on(None)
        t.thread = threading.Thread(target=body, name=name, daemon=True)
        self.threads.append(t)
        return t

    # -- tracing
    def _tracer(self, frame, event, arg):
        if event != 'call':
            return None
        fn = frame.f_code.co_filename
        if fn.endswith(self.traced):
            return self._local
        return None

    def _local(self, frame, event, arg):
        if event == 'line':
            self.yield_point(frame.f_code.co_name, frame.f_lineno)
        return self._local

    def runnable(self, exclude=None):
        out = []
        for t in self.threads:
            if t.done or t is exclude:
                continue
            if t.blocked_on is not None and not t.blocked_on():
                continue
            out.append(t)
        return out

    def yield_point(self, fn, line):
        me = self.cur
        self.step += 1
        self.log.append((me.name, fn, line))
        if self.step > self.max_steps:
            self.overrun = True
            self.stopping = True
            raise WorkerStop()
        if self.stopping and me.name == 'worker' and False:
            raise WorkerStop()
        idx = self.plan.get(self.step)
        if idx is None:
            return
        others = self.runnable(exclude=me)
        if not others:
            return
        target = others[idx % len(others)]
        self.fired.append(self.step)
        self._switch(me, target)

    def _switch(self, me, target):
        self.cur = target
        target.go.set()
        me.go.wait()
        me.go.clear()

    def block(self, pred):
        """Park the current thread until pred() holds."""
        me = self.cur
        while not pred():
            if self.stopping:
                raise WorkerStop()
            me.blocked_on = pred
            nxt = self._choose(exclude=me)
            if nxt is None:
                # nobody else can run: the run is over (or deadlocked)
                me.blocked_on = None
                self.stopping = True
                raise WorkerStop()
            self._switch(me, nxt)
            me.blocked_on = None

    def _choose(self, exclude=None):
        cands = self.runnable(exclude=exclude)
        if not cands:
            return None
        return min(cands, key=lambda t: t.prio)

    def _pass_on(self, me):
        nxt = self._choose()
        if nxt is None:
            # either everything is done or only blocked threads remain
            blocked = [t for t in self.threads if not t.done]
            if blocked:
                self.stopping = True
                t = blocked[0]
                self.cur = t
                t.go.set()
            else:
                self.main_go.set()
            return
        self.cur = nxt
        nxt.go.set()

    def run(self, timeout=30):
        for t in self.threads:
            t.thread.start()
        first = self._choose()
        self.cur = first
        first.go.set()
        if not self.main_go.wait(timeout):
            raise HarnessError('scheduler did not terminate (real deadlock)')
        for t in self.threads:
            t.thread.join(timeout=5)


class SimQueue:
    """Stands for queue.Queue on BertE.task_queue: same surface (put, get,
    task_done, qsize, .queue), but get() parks with the scheduler."""

    def __init__(self, sched):
        self.queue = collections.deque()
        self.sched = sched
        self.unfinished = 0

    def put(self, item):
        self.queue.append(item)
        self.unfinished += 1

    def get(self):
        self.sched.block(lambda: len(self.queue) > 0)
        return self.queue.popleft()

    def task_done(self):
        self.unfinished -= 1

    def qsize(self):
        return len(self.queue)

    def empty(self):
        return not self.queue
