"""Child-process entry point: executes exactly one task (one seed or one
replay) and writes its result as JSON.  Invoked by sim.core.run_tasks with
PYTHONHASHSEED fixed from the task seed."""
import faulthandler
import json
import os
import random
import shutil
import sys
import time

HERE = os.path.dirname(os.path.abspath(__file__))
VERIF = os.path.dirname(HERE)
sys.path.insert(0, VERIF)
REPO = os.environ.get('VERIF_REPO', '/repo')
sys.path.insert(0, REPO)

import warnings  # noqa: E402
warnings.simplefilter('ignore')

from sim.core import Violation, HarnessError, digest, fmt_exc  # noqa: E402


def run_e1(task, prop):
    from sim.world import World
    seed = task['seed']
    rng = random.Random(seed)
    replay = task.get('mode') == 'replay'
    tier = task.get('tier', 'quick')
    cfg = task['config'] if replay else prop.gen_config(rng, tier)
    w = World(task['scratch'], cfg, prop.LOG_LEVEL)
    deadline = task.get('deadline')
    w.deadline = deadline
    w.setup()
    prop.begin(w, rng)
    executed = []
    violations = []
    try:
        if replay:
            for op in task['ops']:
                executed.append(op)
                recs = prop.apply(w, op)
                for rec in recs or []:
                    prop.check_job(w, rec)
                prop.check_op(w, op, recs or [])
        else:
            n = prop.nops(rng, tier)
            for step in range(n):
                if deadline and time.time() > deadline:
                    w.probe('run-truncated-by-wall-budget')
                    break
                op = prop.next_op(w, rng, step, n)
                if op is None:
                    break
                executed.append(op)
                recs = prop.apply(w, op)
                for rec in recs or []:
                    prop.check_job(w, rec)
                prop.check_op(w, op, recs or [])
                st = w.abstract_state(
                    recs[-1]['status'] if recs else '')
                w.abstract_transitions.add(digest([st, op['op']]))
                w.abstract_states.add(st)
        if replay and task.get('final_ops') is not None:
            # ops that final() generated in the original run
            for op in task['final_ops']:
                executed.append(op)
                recs = prop.apply(w, op)
                for rec in recs or []:
                    prop.check_job(w, rec)
                prop.check_op(w, op, recs or [])
        else:
            # final() records the ops it applies in w.final_sink *before*
            # applying them, so that a violation raised from there still
            # leaves a complete, replayable op list
            w.final_sink = executed
            fin = prop.final(w, rng, replay=replay)
            if fin:
                executed.extend(o for o in fin
                                if not any(o is e for e in executed))
    except Violation as v:
        violations.append(v.as_dict())
    res = {
        'property': prop.ID, 'seed': seed, 'config': cfg, 'ops': executed,
        'violations': violations,
        'stats': w.stats, 'nontrivial': bool(prop.nontrivial(w)),
        'states': sorted(w.abstract_states),
        'transitions': sorted(w.abstract_transitions),
        'trace_digest': digest(w.trace),
        'sim_seconds': w.clock.t - 1600000000,
        'extra': prop.extra_stats(w),
        'statuses': w.stats['statuses'],
    }
    if task.get('want_trace'):
        res['trace'] = w.trace
    return res


def main():
    faulthandler.enable()
    with open(sys.argv[1]) as f:
        task = json.load(f)
    faulthandler.dump_traceback_later(task.get('hang_s', 900), exit=True)
    t0 = time.time()
    if task.get('run_timeout'):
        # a run stops exploring (it is not killed) well before the driver's
        # wall-clock limit for one task, whatever the check's own deadline
        soft = t0 + 0.7 * task['run_timeout']
        task['deadline'] = min(task.get('deadline') or soft, soft)
    try:
        from sim import props
        prop = props.get(task['property'])
        if prop.ENGINE == 'e1' and not hasattr(prop, 'run'):
            res = run_e1(task, prop)
        else:
            res = prop.run(task)
    except HarnessError:
        res = {'error': 'harness: ' + fmt_exc()}
    except BaseException:
        res = {'error': fmt_exc()}
    res['wall_s'] = time.time() - t0
    res['hashseed'] = os.environ.get('PYTHONHASHSEED')
    tmp = task['out'] + '.tmp'
    with open(tmp, 'w') as f:
        json.dump(res, f, default=str)
    os.replace(tmp, task['out'])
    shutil.rmtree(task['scratch'], ignore_errors=True)
    shutil.rmtree(task['scratch'] + '.snap', ignore_errors=True)
    sys.stdout.flush()
    os._exit(0)


if __name__ == '__main__':
    main()
