"""Reference models, written from the property statements (DESIGN.md
appendix A).  None of them imports from bert_e."""
import re

DEV_RE = re.compile(r'^development/(\d+)(?:\.(\d+))?$')
STAB_RE = re.compile(r'^stabilization/(\d+)\.(\d+)\.(\d+)$')
HOTFIX_RE = re.compile(r'^hotfix/(\d+)\.(\d+)\.(\d+)$')
TAG_RE = re.compile(r'^v?(\d+)\.(\d+)\.(\d+)(?:\.(\d+))?$')
BIG = 10 ** 9


class Layout:
    """Destination branches and tags of a repository."""

    def __init__(self, heads, tags=()):
        self.devs = {}     # (major, minor|None) -> name
        self.stabs = {}    # (major, minor) -> [(micro, name)]
        self.hotfixes = {}  # (major, minor, micro) -> name
        for h in heads:
            m = DEV_RE.match(h)
            if m:
                minor = int(m.group(2)) if m.group(2) is not None else None
                self.devs[(int(m.group(1)), minor)] = h
                continue
            m = STAB_RE.match(h)
            if m:
                self.stabs.setdefault(
                    (int(m.group(1)), int(m.group(2))), []).append(
                        (int(m.group(3)), h))
                continue
            m = HOTFIX_RE.match(h)
            if m:
                self.hotfixes[tuple(int(x) for x in m.groups())] = h
        self.tags = []
        for t in tags:
            m = TAG_RE.match(t)
            if m:
                self.tags.append((int(m.group(1)), int(m.group(2)),
                                  int(m.group(3)),
                                  int(m.group(4)) if m.group(4) is not None
                                  else None))

    @staticmethod
    def dev_key(k):
        return (k[0], BIG if k[1] is None else k[1])

    def sorted_devs(self):
        return [self.devs[k] for k in sorted(self.devs, key=self.dev_key)]

    def well_formed(self):
        """None if the layout satisfies the cascade rules of C09, else a
        reason."""
        for k, lst in self.stabs.items():
            if len(lst) > 1:
                return 'two stabilization branches for %d.%d' % k
            if k not in self.devs:
                return 'stabilization without development/%d.%d' % k
            micro = lst[0][0]
            rel = self.released(k[0], k[1])
            if rel >= micro:
                return 'release tag >= stabilization micro for %d.%d' % k
            if rel + 1 != micro:
                return 'stabilization micro is not next patch for %d.%d' % k
        if not self.devs:
            return 'no development branch'
        return None

    def released(self, major, minor):
        zs = [t[2] for t in self.tags if t[0] == major and t[1] == minor]
        return max(zs) if zs else -1

    def chain_pairs(self):
        """(older, newer) pairs that C01 requires to be included."""
        pairs = []
        devs = self.sorted_devs()
        for a, b in zip(devs, devs[1:]):
            pairs.append((a, b))
        for k, lst in self.stabs.items():
            if len(lst) == 1 and k in self.devs:
                pairs.append((lst[0][1], self.devs[k]))
        return pairs

    def targets(self, dst):
        """Target branches of a PR on `dst` (statement of C09)."""
        m = HOTFIX_RE.match(dst)
        if m:
            return [dst]
        m = STAB_RE.match(dst)
        if m:
            k = (int(m.group(1)), int(m.group(2)))
            if k not in self.devs:
                return None
            out = [dst, self.devs[k]]
            for kk in sorted(self.devs, key=self.dev_key):
                if self.dev_key(kk) > self.dev_key(k):
                    out.append(self.devs[kk])
            return out
        m = DEV_RE.match(dst)
        if m:
            minor = int(m.group(2)) if m.group(2) is not None else None
            k = (int(m.group(1)), minor)
            return [self.devs[kk] for kk in sorted(self.devs,
                                                   key=self.dev_key)
                    if self.dev_key(kk) >= self.dev_key(k)]
        return None

    def fix_versions(self, dst):
        """Expected fix versions (None entries = unspecified)."""
        tg = self.targets(dst)
        if tg is None:
            return None
        out = []
        targeted_stab = None
        for t in tg:
            m = STAB_RE.match(t)
            if m:
                targeted_stab = (int(m.group(1)), int(m.group(2)))
                out.append('%s.%s.%s' % m.groups())
                continue
            m = HOTFIX_RE.match(t)
            if m:
                x, y, z = (int(g) for g in m.groups())
                ns = [tt[3] if tt[3] is not None else 0 for tt in self.tags
                      if tt[:3] == (x, y, z)]
                if not ns:
                    out.append(None)
                else:
                    out.append('%d.%d.%d.%d' % (x, y, z, max(ns) + 1))
                continue
            m = DEV_RE.match(t)
            x = int(m.group(1))
            if m.group(2) is None:
                minors = [k[1] for k in self.devs
                          if k[0] == x and k[1] is not None]
                minors += [tt[1] for tt in self.tags if tt[0] == x]
                # the micro of development/x is the highest released patch
                # of x.<None>: unspecified by the statement beyond "next
                # minor"; the code yields .0 unless tags x.None exist
                out.append('%d.%d.0' % (x, max(minors + [-1]) + 1))
                continue
            y = int(m.group(2))
            if targeted_stab == (x, y):
                continue
            rel = self.released(x, y)
            has_stab = bool(self.stabs.get((x, y)))
            out.append('%d.%d.%d' % (x, y, rel + 1 + (1 if has_stab else 0)))
        return out


def layout_from_refs(refs):
    heads = [r for r in refs if not r.startswith('tag:')]
    tags = [r[4:] for r in refs if r.startswith('tag:')]
    return Layout(heads, tags)
