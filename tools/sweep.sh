#!/bin/bash
# usage: tools/sweep.sh <tier> <seed>...   - runs every registered check for each seed, prints one line per run
tier=$1; shift
cd "$(dirname "$0")/.."
for seed in "$@"; do
  for p in $(/venv/bin/python -c "import json;print(' '.join(c['property_id'] for c in json.load(open('MANIFEST.json'))['checks']))"); do
    out=$(./check $p --tier $tier --seed $seed --no-evidence 2>&1); rc=$?
    echo "seed=$seed $p rc=$rc :: $(echo "$out" | grep -v '^KNOWN-FINDING' | grep -v '^  minimised' | tail -4 | tr '\n' '|' | cut -c1-900)"
  done
done
