#!/venv/bin/python
"""Regenerate MANIFEST.json from the property classes' metadata."""
import json, os, sys
VERIF = os.path.dirname(os.path.dirname(os.path.abspath(__file__)))
sys.path.insert(0, VERIF)
from sim import props
from sim.meta import META, NOT_APPLICABLE, ENGINES

checks = []
for pid in sorted(props.REGISTRY):
    m = META[pid]
    checks.append({
        'property_id': pid,
        'quick_cmd': './check %s --tier quick' % pid,
        'thorough_cmd': './check %s --tier thorough' % pid,
        'evidence_file': 'evidence/%s.json' % pid,
        'replay_cmd_template': './check %s --replay {path}' % pid,
        'engine': m['engine'],
        'level_claimed': {'category': m['level'], 'text': m['text'],
                          'design_ref': m['design_ref']},
        'level_note': m['note'],
        'technique': m['technique'],
    })
claimed = set(props.REGISTRY)
na = [x for x in NOT_APPLICABLE if x['property_id'] not in claimed]
allp = [json.loads(l)['id'] for l in open(os.path.join(VERIF, 'properties.jsonl'))]
for pid in allp:
    if pid not in claimed and pid not in [x['property_id'] for x in na]:
        na.append({'property_id': pid, 'reason': 'check not built yet in this revision of /verif (planned: DESIGN.md section 5); not claimed'})
hooks_commits = []
man = {
    'version': 1,
    'setup_cmd': '/venv/bin/python -m compileall -q sim && /venv/bin/python -c "import sys; sys.path.insert(0, \'/repo\'); import bert_e.bert_e, flask, yaml, requests"',
    'hooks': {'guard': 'BERTE_VERIF',
              'enable': 'none needed: every seam is substituted from the harness side (module/instance attributes, environment variables); /repo carries no hook code',
              'baseline_off_cmd': 'cd /repo && /venv/bin/python -m pytest -ra -q -p no:cacheprovider --timeout=900 --continue-on-collection-errors',
              'source_commits': hooks_commits, 'add_only': True},
    'engines': ENGINES,
    'checks': checks,
    'not_applicable': sorted(na, key=lambda x: x['property_id']),
    'notes': 'Deterministic simulation with fault injection; see DESIGN.md. Exit codes: 0 held, 1 VIOLATION, 2 harness error. Environment: VERIF_SEED, VERIF_TIER, VERIF_BUDGET_S, VERIF_JOBS, VERIF_SCRATCH. Genuine defects repaired in /repo are listed as fixed: lines in known_findings.jsonl.',
}
json.dump(man, open(os.path.join(VERIF, 'MANIFEST.json'), 'w'), indent=1)
print('wrote MANIFEST.json with %d checks, %d not_applicable' % (len(checks), len(na)))
