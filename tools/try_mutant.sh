#!/bin/bash
# usage: tools/try_mutant.sh <name> <dir-with-patch.diff-and-demo.py> <check-id> [more check ids]
# Applies the seeded change to a scratch worktree of /repo HEAD, verifies the
# pinned tests and the demonstration, then runs the named checks against it.
set -u
name=$1; dir=$2; shift 2
wt=/dev/shm/mutwt-$name
git -C /repo worktree remove --force $wt 2>/dev/null
git -C /repo worktree add -q --detach $wt HEAD || exit 3
echo "== demo on unchanged tree"
( cd /dev/shm && timeout 900 /venv/bin/python $dir/demo.py $wt >/dev/shm/mutwt-$name.demo0 2>&1 ); echo "   exit $?"
( cd $wt && git apply $dir/patch.diff ) || { echo "PATCH DOES NOT APPLY"; exit 3; }
echo "== demo on changed tree"
( cd /dev/shm && timeout 900 /venv/bin/python $dir/demo.py $wt >/dev/shm/mutwt-$name.demo1 2>&1 ); echo "   exit $?"; tail -3 /dev/shm/mutwt-$name.demo1
if [ "${SKIP_TESTS:-}" = "" ]; then
echo "== pinned tests on changed tree"
( cd $wt && timeout 2000 /venv/bin/python -m pytest -q -p no:cacheprovider --timeout=900 --continue-on-collection-errors -x -q bert_e/tests/unit bert_e/tests/test_server.py bert_e/tests/test_git_host.py "bert_e/tests/test_bert_e.py::QuickTest" "bert_e/tests/test_bert_e.py::BuildFailedTest" --deselect bert_e/tests/unit/test_github_app_auth.py --deselect bert_e/tests/unit/test_github_build_status.py::test_aggregated_workflow_run_api_client --deselect bert_e/tests/unit/test_settings.py::test_settings_as_obj 2>&1 | tail -2 )
fi
for c in "$@"; do
  echo "== check $c against the changed tree"
  ( cd /verif && VERIF_REPO=$wt timeout 3000 ./check $c --tier ${TIER:-quick} --no-evidence 2>&1 | grep -v "^  minimised" | tail -6 )
done
git -C /repo worktree remove --force $wt
