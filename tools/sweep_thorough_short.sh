#!/bin/bash
# usage: tools/sweep_thorough_short.sh <budget-seconds> <seed>
# Every registered check at the thorough tier (all faults / placements of a
# probe, larger batches, determinism sample) with a shortened wall budget:
# exercises the thorough code paths of every check in about two hours.
b=${1:-240}; seed=${2:-0}
cd "$(dirname "$0")/.."
for p in $(/venv/bin/python -c "import json;print(' '.join(c['property_id'] for c in json.load(open('MANIFEST.json'))['checks']))"); do
  out=$(./check $p --tier thorough --budget $b --seed $seed --no-evidence 2>&1); rc=$?
  echo "seed=$seed $p rc=$rc :: $(echo "$out" | grep -v '^KNOWN-FINDING' | grep -v '^  minimised' | tail -3 | tr '\n' '|' | cut -c1-700)"
done
