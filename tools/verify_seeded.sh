#!/bin/bash
# Re-runs every seeded change under /verif/seeded against the checks that are
# recorded to catch it; prints one line per (change, check).
cd "$(dirname "$0")/.."
for d in seeded/*/; do
  id=$(basename $d)
  if [ -n "${ONLY:-}" ] && ! echo "$id" | grep -Eq "$ONLY"; then continue; fi
  checks=$(/venv/bin/python -c "import json;print(' '.join(json.load(open('$d/meta.json'))['caught_by']))")
  wt=/dev/shm/mutwt-v-$id
  git -C /repo worktree remove --force $wt 2>/dev/null
  git -C /repo worktree add -q --detach $wt HEAD || { echo "$id WORKTREE-FAILED"; continue; }
  if ! ( cd $wt && git apply /verif/$d/patch.diff ) 2>/dev/null; then echo "$id PATCH-DOES-NOT-APPLY"; git -C /repo worktree remove --force $wt; continue; fi
  for c in $checks; do
    out=$(VERIF_REPO=$wt timeout 3000 ./check $c --tier quick --seed ${SEED:-0} --no-evidence 2>&1); rc=$?
    echo "$id $c rc=$rc $(echo "$out" | grep '  key:' | head -2 | tr '\n' ' ')"
  done
  git -C /repo worktree remove --force $wt
done
