#!/venv/bin/python
"""For every seeded change: apply it to a scratch worktree of /repo HEAD and
run the pinned suite; record whether all 76 stable tests still pass."""
import glob, json, os, re, subprocess, sys
stable = set(json.load(open('/root/.vp/BASELINE.json'))['stable_pass'])
only = sys.argv[1:]
for d in sorted(glob.glob('/verif/seeded/*/')):
    mid = os.path.basename(d.rstrip('/'))
    if only and mid not in only:
        continue
    out = os.path.join(d, 'pinned_tests.txt')
    if os.path.exists(out) and not only:
        continue
    wt = '/dev/shm/pinwt-' + mid
    subprocess.run(['git', '-C', '/repo', 'worktree', 'remove', '--force', wt], capture_output=True)
    subprocess.run(['git', '-C', '/repo', 'worktree', 'add', '-q', '--detach', wt, 'HEAD'], check=True)
    r = subprocess.run(['git', 'apply', os.path.join(d, 'patch.diff')], cwd=wt, capture_output=True, text=True)
    if r.returncode != 0:
        open(out, 'w').write('PATCH DOES NOT APPLY to /repo HEAD: %s\n' % r.stderr[:300])
        subprocess.run(['git', '-C', '/repo', 'worktree', 'remove', '--force', wt])
        continue
    xml = '/dev/shm/pin-%s.xml' % mid
    subprocess.run(['/venv/bin/python', '-m', 'pytest', '-q', '-p', 'no:cacheprovider', '--timeout=900',
                    '--continue-on-collection-errors', '--junitxml=' + xml], cwd=wt, capture_output=True, text=True)
    import xml.etree.ElementTree as ET
    passed = set()
    try:
        for tc in ET.parse(xml).getroot().iter('testcase'):
            if not list(tc):
                passed.add('%s::%s' % (tc.get('classname'), tc.get('name')))
    except Exception as err:
        passed = set()
    missing = sorted(stable - passed)
    head = subprocess.run(['git', '-C', '/repo', 'log', '--format=%h', '-1'], capture_output=True, text=True).stdout.strip()
    open(out, 'w').write('pinned suite on /repo %s + patch.diff: %d of %d stable tests pass%s\n' % (
        head, len(stable & passed), len(stable), ('; NOT passing: %s' % missing) if missing else ''))
    print(mid, open(out).read().strip())
    subprocess.run(['git', '-C', '/repo', 'worktree', 'remove', '--force', wt])
    for f in (xml,):
        try: os.unlink(f)
        except OSError: pass
